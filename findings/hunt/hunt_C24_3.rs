use automerge::{
    transaction::Transactable, ActorId, AutoCommit, ObjType, ReadDoc, ScalarValue, TextEncoding,
    Value, ROOT,
};

// C24: every index below the text's length is accepted by get() and addresses the element
// that covers it. A counter embedded in a text (rendered as U+FFFC) keeps being addressable
// after it has been incremented.
#[test]
fn get_on_an_incremented_counter_embedded_in_text() {
    for enc in [
        TextEncoding::UnicodeCodePoint,
        TextEncoding::Utf8CodeUnit,
        TextEncoding::Utf16CodeUnit,
        TextEncoding::GraphemeCluster,
    ] {
        let mut a = AutoCommit::new_with_encoding(enc).with_actor(ActorId::from(vec![1u8; 4]));
        let t = a.put_object(ROOT, "t", ObjType::Text).unwrap();
        a.splice_text(&t, 0, 0, "ab").unwrap();
        a.insert(&t, 1, ScalarValue::counter(5)).unwrap();
        a.commit();
        assert_eq!(a.text(&t).unwrap(), "a\u{fffc}b");
        assert!(matches!(
            a.get(&t, 1).unwrap(),
            Some((Value::Scalar(s), _)) if s.as_ref() == &ScalarValue::counter(5)
        ));

        a.increment(&t, 1, 3).unwrap();
        a.commit();
        assert_eq!(a.text(&t).unwrap(), "a\u{fffc}b");

        let got = a.get(&t, 1).unwrap();
        assert!(
            matches!(&got, Some((Value::Scalar(s), _)) if s.as_ref() == &ScalarValue::counter(8)),
            "{enc:?}: get(text, 1) must return the counter 8 that occupies index 1, got {got:?}"
        );
    }
}
