use automerge::{
    transaction::Transactable, ActorId, AutoCommit, LoadOptions, ObjType, ReadDoc,
    StringMigration, ROOT,
};

// C40: "A document with no visible strings loads with no added change."
// The only string scalars of this document live inside objects that were deleted, so
// nothing a reader can reach is a string; the migrating load must leave the history alone.
#[test]
fn strings_inside_deleted_objects_do_not_add_a_change() {
    let mut doc = AutoCommit::new().with_actor(ActorId::from(vec![1u8; 4]));
    let m = doc.put_object(ROOT, "m", ObjType::Map).unwrap();
    doc.put(&m, "s", "hidden in a deleted map").unwrap();
    let l = doc.put_object(ROOT, "l", ObjType::List).unwrap();
    doc.insert(&l, 0, "hidden in a deleted list").unwrap();
    doc.put(ROOT, "n", 1).unwrap();
    doc.delete(ROOT, "m").unwrap();
    doc.delete(ROOT, "l").unwrap();
    doc.commit();

    let heads = doc.get_heads();
    let n_changes = doc.get_changes(&[]).len();
    let saved = doc.save();

    let mut loaded = AutoCommit::load_with_options(
        &saved,
        LoadOptions::new().migrate_strings(StringMigration::ConvertToText),
    )
    .unwrap();

    // sanity: the document really has no visible string
    assert_eq!(loaded.keys(ROOT).collect::<Vec<_>>(), vec!["n".to_string()]);

    assert_eq!(
        loaded.get_changes(&[]).len(),
        n_changes,
        "C40: a document with no visible strings must load with no added change \
         (the only strings are inside deleted objects)"
    );
    assert_eq!(
        loaded.get_heads(),
        heads,
        "C40: a document with no visible strings must keep its heads after a migrating load"
    );
}
