// C26: a cursor resolves to its element's current index while the element is visible.
//
// Text "abc". Actors B and C concurrently overwrite character 1 with put(); B
// (the lower actor) takes a cursor on its own value. After merging, C's value
// wins, B's value is a visible-but-not-top op of the same element. Resolving
// B's cursor at the current heads must give 1. In a debug build it panics:
// seek_list_opid_fast derives `visible` for text from the text-width index,
// which is only set on the top op, so it reports visible=false while the slow
// path reports visible=true, and the debug_assert_eq in seek_list_opid fires.
use automerge::transaction::Transactable;
use automerge::{ActorId, AutoCommit, MoveCursor, ObjType, ReadDoc, ROOT};

fn actor(b: u8) -> ActorId {
    ActorId::from(vec![b; 16])
}

#[test]
fn text_cursor_on_losing_conflict_value() {
    let mut a = AutoCommit::new().with_actor(actor(1));
    let text = a.put_object(ROOT, "t", ObjType::Text).unwrap();
    a.splice_text(&text, 0, 0, "abc").unwrap();
    a.commit();
    let mut b = a.fork().with_actor(actor(2));
    let mut c = a.fork().with_actor(actor(3));
    b.put(&text, 1, "Z").unwrap();
    b.commit();
    let cur = b.get_cursor(&text, 1, None).unwrap();
    let cur_before = b
        .get_cursor_moving(&text, 1, None, MoveCursor::Before)
        .unwrap();
    c.put(&text, 1, "X").unwrap();
    c.commit();
    a.merge(&mut b).unwrap();
    a.merge(&mut c).unwrap();
    assert_eq!(a.text(&text).unwrap(), "aXc");

    let r = std::panic::catch_unwind(std::panic::AssertUnwindSafe(|| {
        (
            a.get_cursor_position(&text, &cur, None),
            a.get_cursor_position(&text, &cur_before, None),
        )
    }));
    let (after, before) = match r {
        Ok(v) => v,
        Err(_) => panic!(
            "C26: get_cursor_position panicked; the cursor's element is visible at index 1 and the cursor must resolve to 1"
        ),
    };
    assert_eq!(after.unwrap(), 1, "C26: cursor must resolve to index 1");
    assert_eq!(before.unwrap(), 1, "C26: Before cursor must resolve to index 1");
}
