use automerge::transaction::Transactable;
use automerge::{ActorId, AutoCommit, ObjType, ReadDoc, ROOT};

// C29: after integrate, the document equals the merge of the isolated changes
// into the current state.
#[test]
fn isolated_put_then_delete_of_a_text_element_overwritten_outside_the_scope() {
    let mut doc = AutoCommit::new().with_actor(ActorId::from(vec![1u8; 4]));
    let t = doc.put_object(ROOT, "t", ObjType::Text).unwrap();
    doc.splice_text(&t, 0, 0, "abc").unwrap();
    doc.commit();
    let h = doc.get_heads();

    // a later change (not in `h`) overwrites the first element
    doc.put(&t, 0, "Z").unwrap();
    doc.commit();
    assert_eq!(doc.text(&t).unwrap(), "Zbc");

    // what every other peer computes
    let mut expected = doc.fork();

    doc.isolate(&h);
    assert_eq!(doc.text(&t).unwrap(), "abc");
    doc.put(&t, 0, "Y").unwrap();
    assert_eq!(doc.text(&t).unwrap(), "Ybc");
    doc.delete(&t, 0).unwrap();
    assert_eq!(doc.text(&t).unwrap(), "bc");
    doc.commit();
    let isolated: Vec<_> = doc
        .get_changes(&h)
        .into_iter()
        .filter(|c| !expected.get_change_by_hash(&c.hash()).is_some())
        .collect();
    for c in &isolated {
        println!("{:?}", c.decode().operations);
    }
    doc.integrate();

    expected.apply_changes(isolated).unwrap();
    // the isolated delete only deletes what was visible at `h` (+ the isolated put),
    // so the concurrent "Z" survives
    assert_eq!(expected.text(&t).unwrap(), "Zbc");
    let reloaded = AutoCommit::load(&doc.save()).unwrap();
    println!("reloaded: {:?}", reloaded.text(&t).unwrap());
    assert_eq!(
        doc.text(&t).unwrap(),
        expected.text(&t).unwrap(),
        "after integrate the document must equal the merge of the isolated changes into the current state"
    );
}
