use automerge::marks::{ExpandMark, Mark};
use automerge::transaction::Transactable;
use automerge::{ActorId, AutoCommit, ObjType, ReadDoc, ScalarValue, ROOT};

fn covered(doc: &AutoCommit, obj: &automerge::ObjId) -> (Vec<bool>, Vec<bool>) {
    let len = doc.length(obj);
    let per_index: Vec<bool> = (0..len)
        .map(|i| {
            doc.get_marks(obj, i, None)
                .unwrap()
                .iter()
                .any(|(k, v)| k == "c" && v == &ScalarValue::Int(1))
        })
        .collect();
    let mut from_marks = vec![false; len];
    for m in doc.marks(obj).unwrap() {
        assert_eq!((m.name(), m.value()), ("c", &ScalarValue::Int(1)));
        for i in m.start..m.end {
            from_marks[i] = true;
        }
    }
    (per_index, from_marks)
}

#[test]
fn marks_agree_after_empty_commit_by_a_low_sorting_actor() {
    let mut a = AutoCommit::new().with_actor(ActorId::from(vec![1u8]));
    let obj = a.put_object(ROOT, "t", ObjType::Text).unwrap();
    a.splice_text(&obj, 0, 0, "hello").unwrap();
    a.commit();
    let mut b = a.fork().with_actor(ActorId::from(vec![2u8]));
    // c has never made a change; its actor id sorts before every actor in the document
    let mut c = a.fork().with_actor(ActorId::from(vec![0u8]));

    a.mark(&obj, Mark::new("c".into(), ScalarValue::Int(1), 0, 4), ExpandMark::None).unwrap();
    a.commit();
    b.unmark(&obj, "c", 3, 4, ExpandMark::Before).unwrap();
    b.commit();

    c.merge(&mut a).unwrap();
    assert_eq!(c.commit(), None, "nothing to commit");
    let (g, m) = covered(&c, &obj);
    assert_eq!(g, vec![true, true, true, true, false]);
    assert_eq!(m, g, "marks() must agree with get_marks(i) after an empty commit");

    c.merge(&mut b).unwrap();
    let (g, m) = covered(&c, &obj);
    assert_eq!(g, vec![true, true, true, false, false], "get_marks after merging the unmark");
    assert_eq!(
        m, g,
        "marks() must report the same marking as get_marks(i) (the unmark of [3,4) only removes 'c' at index 3); marks() = {:?}",
        c.marks(&obj).unwrap()
    );
}
