use automerge::transaction::Transactable;
use automerge::{AutoCommit, ReadDoc, ROOT};

// Property C07: every read of a document isolated at `heads`
// (AutoCommit::isolate) equals the same read on a document that contains
// exactly the ancestors of `heads` (fork_at(heads)). `hydrate` is one of
// those reads.
#[test]
fn hydrate_of_isolated_doc_equals_fork_at() {
    let mut doc = AutoCommit::new();
    doc.put(&ROOT, "k", "old").unwrap();
    doc.commit();
    let old_heads = doc.get_heads();
    doc.put(&ROOT, "k", "new").unwrap();
    doc.put(&ROOT, "later", 1).unwrap();
    doc.commit();

    let fork = doc.fork_at(&old_heads).unwrap();
    let expected = fork.hydrate(&ROOT, None).unwrap();

    doc.isolate(&old_heads);
    // every other read honours the isolation
    assert_eq!(doc.get_heads(), old_heads);
    assert_eq!(
        doc.get(&ROOT, "k").unwrap().unwrap().0.to_string(),
        "\"old\""
    );
    assert_eq!(doc.keys(&ROOT).collect::<Vec<_>>(), vec!["k".to_string()]);

    let isolated = doc.hydrate(&ROOT, None).unwrap();
    assert_eq!(
        isolated, expected,
        "C07: hydrate(ROOT, None) on a document isolated at old_heads must equal hydrate on fork_at(old_heads) \
         (like get/keys/... do), but it returned the un-isolated current document"
    );
}

// Same root cause, other symptom: hydrate(obj, Some(heads)) with `heads` equal
// to the committed heads while a transaction is pending includes the pending
// (uncommitted) ops, whereas get_at / keys_at for the same heads do not.
#[test]
fn hydrate_at_committed_heads_with_pending_transaction() {
    let mut doc = AutoCommit::new();
    doc.put(&ROOT, "k", "old").unwrap();
    doc.commit();
    let heads = doc.get_heads();
    let expected = doc.fork_at(&heads).unwrap().hydrate(&ROOT, None).unwrap();

    // pending, uncommitted op: not an ancestor of `heads`
    doc.put(&ROOT, "pending", 1).unwrap();

    assert_eq!(
        doc.keys_at(&ROOT, &heads).collect::<Vec<_>>(),
        vec!["k".to_string()]
    );
    let got = doc.hydrate(&ROOT, Some(&heads)).unwrap();
    assert_eq!(
        got, expected,
        "C07: hydrate(ROOT, Some(heads)) must equal hydrate on fork_at(heads); the pending op is not part of heads"
    );
}
