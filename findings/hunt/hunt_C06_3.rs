use automerge::transaction::Transactable;
use automerge::{ActorId, AutoCommit, ObjType, ReadDoc, ROOT};

// C06: no sequence of calls can leave a document that cannot be saved and reloaded to the same
// state. join_block on a text element which holds two conflicting values deletes only the
// winning value, but the live document hides the whole element: the document and its own
// save() output disagree about the text (and rollback/commit cannot repair it).
#[test]
fn join_block_on_a_conflicted_element_must_agree_with_its_own_save() {
    let mut doc = AutoCommit::new().with_actor(ActorId::from(vec![0x55_u8; 4]));
    let text = doc.put_object(ROOT, "text", ObjType::Text).unwrap();
    doc.splice_text(&text, 0, 0, "abc").unwrap();
    doc.commit();

    // two actors overwrite the element at index 1 concurrently
    let mut d2 = doc.fork().with_actor(ActorId::from(vec![0x11_u8; 4]));
    let mut d3 = doc.fork().with_actor(ActorId::from(vec![0x99_u8; 4]));
    d2.put(&text, 1, "V").unwrap();
    d3.put(&text, 1, "W").unwrap();
    doc.merge(&mut d2).unwrap();
    doc.merge(&mut d3).unwrap();
    assert_eq!(doc.get_all(&text, 1).unwrap().len(), 2);
    let winner = doc.text(&text).unwrap();
    assert_eq!(winner.chars().count(), 3);

    doc.join_block(&text, 1).unwrap();
    doc.commit();

    let live_text = doc.text(&text).unwrap();
    let live_len = doc.length(&text);

    let reloaded = AutoCommit::load(&doc.save()).unwrap();
    let reloaded_text = reloaded.text(&text).unwrap();
    let reloaded_len = reloaded.length(&text);

    assert_eq!(
        (live_text, live_len),
        (reloaded_text, reloaded_len),
        "C06: the document must show the same text as the document loaded from its own save()"
    );
}
