use automerge::marks::{ExpandMark, Mark};
use automerge::transaction::Transactable;
use automerge::{ActorId, AutoCommit, Change, ExpandedChange, ObjType, ROOT};

// C18: expanding a change and re-encoding it gives the same hash. ExpandedChange is the serde
// (JSON) form of a change, so writing it out and reading it back must not change any op.
#[test]
fn expanded_change_with_an_integer_mark_value_survives_serde() {
    let mut doc = AutoCommit::new().with_actor(ActorId::from(vec![2, 2, 2, 2]));
    let text = doc.put_object(&ROOT, "t", ObjType::Text).unwrap();
    doc.splice_text(&text, 0, 0, "hello").unwrap();
    doc.mark(
        &text,
        Mark::new("level".to_string(), 1_i64, 0, 3),
        ExpandMark::Both,
    )
    .unwrap();
    doc.commit();
    let change = doc.get_changes(&[]).pop().unwrap();

    let expanded = change.decode();
    let json = serde_json::to_string(&expanded).unwrap();
    let read_back: ExpandedChange = serde_json::from_str(&json).unwrap();

    assert_eq!(
        read_back, expanded,
        "an expanded change read back from its own JSON must have the same ops \
         (the mark value must still be Int(1)); json was {json}"
    );
    assert_eq!(
        Change::from(read_back).hash(),
        change.hash(),
        "re-encoding the expanded change must give the hash of the original change"
    );
}
