// C28: after a transaction is rolled back the document cannot be told apart from its state
// before the transaction began, and later edits / merges behave exactly as they would on
// the untouched document.
//
// Scenario: the document contains a mark made by actor 22222222. A new actor 11111111 (which
// sorts before every actor in the document) makes its first change in a transaction that is
// rolled back. Then a concurrent mark made by actor 55555555 (same op counter as the first
// mark) is merged. `marks()` of the rolled back document now differs from `marks()` of an
// untouched clone that merged the same change.

use automerge::marks::{ExpandMark, Mark};
use automerge::transaction::Transactable;
use automerge::{ActorId, Automerge, ObjType, ReadDoc, ROOT};

fn actor(b: u8) -> ActorId {
    ActorId::from(vec![b; 4])
}

#[test]
fn marks_after_rollback_of_first_change_actor_and_merge() {
    let mut base = Automerge::new().with_actor(actor(0x55));
    let text = {
        let mut tx = base.transaction();
        let text = tx.put_object(ROOT, "t", ObjType::Text).unwrap();
        tx.splice_text(&text, 0, 0, "hello world!!").unwrap();
        tx.commit();
        text
    };

    // two concurrent marks, their ops have the same counters
    let mut a = base.fork().with_actor(actor(0x22));
    {
        let mut tx = a.transaction();
        tx.mark(&text, Mark::new("bold".into(), true, 2, 9), ExpandMark::Both)
            .unwrap();
        tx.commit();
    }
    let mut b = base.fork().with_actor(actor(0x55));
    {
        let mut tx = b.transaction();
        tx.mark(&text, Mark::new("bold".into(), true, 8, 13), ExpandMark::None)
            .unwrap();
        tx.commit();
    }

    // the document under test: has a's mark, and a brand new actor that sorts first
    let mut doc = a.fork().with_actor(actor(0x11));
    let mut pristine = doc.clone();

    {
        let mut tx = doc.transaction();
        tx.put(ROOT, "x", 1).unwrap();
        assert_eq!(tx.rollback(), 1);
    }
    assert_eq!(doc.save(), pristine.save());
    assert_eq!(doc.get_actor(), pristine.get_actor());
    assert_eq!(doc.marks(&text).unwrap(), pristine.marks(&text).unwrap());

    // the same remote change arrives at both documents
    doc.merge(&mut b.clone()).unwrap();
    pristine.merge(&mut b.clone()).unwrap();
    assert_eq!(doc.save(), pristine.save());

    let reloaded = Automerge::load(&doc.save()).unwrap();
    assert_eq!(
        pristine.marks(&text).unwrap(),
        reloaded.marks(&text).unwrap(),
        "sanity: the untouched document agrees with a freshly loaded one"
    );
    assert_eq!(
        doc.marks(&text).unwrap(),
        pristine.marks(&text).unwrap(),
        "C28: after a rollback, merging a change must give the same marks as on the untouched document"
    );
}
