// C32: AutoSerde must export a Table object like a map, with all of its rows
// (autoserde.rs handles `ObjType::Map | ObjType::Table` in one arm).
use automerge::{transaction::Transactable, AutoCommit, AutoSerde, ObjType, ReadDoc, ROOT};
use serde_json::json;

#[test]
fn table_with_a_row_is_exported_as_a_map() {
    let mut doc = AutoCommit::new().with_actor(automerge::ActorId::from(vec![1u8; 4]));
    let table = doc
        .put_object(ROOT, "tb", ObjType::Table)
        .expect("creating a table succeeds");

    // the freshly returned object id must be usable
    let typ = doc.object_type(&table);
    let put = doc.put(&table, "row", "v");
    assert!(
        typ.is_ok() && put.is_ok(),
        "C32 requires a Table to be exported as a map of its rows, but the table returned by \
         put_object cannot even be populated or queried: object_type = {:?}, put = {:?}",
        typ,
        put
    );

    let exported = serde_json::to_value(AutoSerde::from(&doc)).unwrap();
    assert_eq!(
        exported,
        json!({"tb": {"row": "v"}}),
        "C32 requires the serde export to be the current state, tables as maps"
    );
}
