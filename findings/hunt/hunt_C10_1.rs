// C10: a change retrieved from a document is byte-identical to the change as created,
// for every history produced through the editing API -- including every i64 commit
// timestamp accepted by CommitOptions::with_time.
use automerge::transaction::{CommitOptions, Transactable};
use automerge::{ActorId, AutoCommit, ROOT};
use std::panic::{catch_unwind, AssertUnwindSafe};

#[test]
fn commit_timestamps_far_apart_are_kept_in_history() {
    let (t1, t2) = (i64::MAX, -2i64);
    let mut doc = AutoCommit::new().with_actor(ActorId::from(vec![1u8]));
    doc.put(ROOT, "a", 1).unwrap();
    let h1 = doc
        .commit_with(CommitOptions::default().with_time(t1))
        .unwrap();
    let c1 = doc.get_change_by_hash(&h1).unwrap().raw_bytes().to_vec();
    doc.put(ROOT, "a", 2).unwrap();

    let r = catch_unwind(AssertUnwindSafe(|| {
        let h2 = doc
            .commit_with(CommitOptions::default().with_time(t2))
            .unwrap();
        let c2 = doc.get_change_by_hash(&h2).unwrap();
        let all = doc.get_changes(&[]);
        let bytes = doc.save();
        let mut l = AutoCommit::load(&bytes).expect("own save must load");
        (c2, all, l.get_changes(&[]))
    }));
    let (c2, all, loaded) = r.expect(
        "C10: committing a second change whose timestamp is more than i64::MAX away from the \
         previous one must succeed and the change must be retrievable",
    );
    assert_eq!(c2.timestamp(), t2);
    assert_eq!(all.len(), 2);
    assert_eq!(all[0].raw_bytes(), &c1[..], "C10: change 1 must be byte-identical later");
    assert_eq!(all[1].raw_bytes(), c2.raw_bytes(), "C10: change 2 must be byte-identical later");
    assert_eq!(loaded[0].raw_bytes(), &c1[..], "C10: change 1 must survive save/load");
    assert_eq!(loaded[1].raw_bytes(), c2.raw_bytes(), "C10: change 2 must survive save/load");
}
