// C32: every container must announce its true length to the serializer, so that
// length-prefixed formats (bincode, postcard, ...), which reject `serialize_seq(None)`,
// can encode the document. Maps announce `Some(len)`; lists announce nothing.
#![allow(dead_code)]
use automerge::{transaction::Transactable, ActorId, AutoCommit, AutoSerde, ObjType, ROOT};
use serde::ser::{self, Serialize};
use serde_json::{json, Value as J};

// ---------- strict serializer: builds a serde_json::Value, enforces length hints ----------
#[derive(Debug)]
struct Err(String);
impl std::fmt::Display for Err {
    fn fmt(&self, f: &mut std::fmt::Formatter<'_>) -> std::fmt::Result {
        write!(f, "{}", self.0)
    }
}
impl std::error::Error for Err {}
impl ser::Error for Err {
    fn custom<T: std::fmt::Display>(msg: T) -> Self {
        Err(msg.to_string())
    }
}

struct Strict {
    require_seq_len: bool,
}
struct SeqS {
    hint: Option<usize>,
    items: Vec<J>,
    strict: bool,
}
struct MapS {
    hint: Option<usize>,
    items: Vec<(String, J)>,
    key: Option<String>,
    strict: bool,
}

impl ser::Serializer for Strict {
    type Ok = J;
    type Error = Err;
    type SerializeSeq = SeqS;
    type SerializeTuple = SeqS;
    type SerializeTupleStruct = SeqS;
    type SerializeTupleVariant = SeqS;
    type SerializeMap = MapS;
    type SerializeStruct = MapS;
    type SerializeStructVariant = MapS;
    fn serialize_bool(self, v: bool) -> Result<J, Err> {
        Ok(json!(v))
    }
    fn serialize_i8(self, v: i8) -> Result<J, Err> {
        Ok(json!(v))
    }
    fn serialize_i16(self, v: i16) -> Result<J, Err> {
        Ok(json!(v))
    }
    fn serialize_i32(self, v: i32) -> Result<J, Err> {
        Ok(json!(v))
    }
    fn serialize_i64(self, v: i64) -> Result<J, Err> {
        Ok(json!(v))
    }
    fn serialize_u8(self, v: u8) -> Result<J, Err> {
        Ok(json!(v))
    }
    fn serialize_u16(self, v: u16) -> Result<J, Err> {
        Ok(json!(v))
    }
    fn serialize_u32(self, v: u32) -> Result<J, Err> {
        Ok(json!(v))
    }
    fn serialize_u64(self, v: u64) -> Result<J, Err> {
        Ok(json!(v))
    }
    fn serialize_f32(self, v: f32) -> Result<J, Err> {
        Ok(json!(v))
    }
    fn serialize_f64(self, v: f64) -> Result<J, Err> {
        Ok(json!(v))
    }
    fn serialize_char(self, v: char) -> Result<J, Err> {
        Ok(json!(v.to_string()))
    }
    fn serialize_str(self, v: &str) -> Result<J, Err> {
        Ok(json!(v))
    }
    fn serialize_bytes(self, v: &[u8]) -> Result<J, Err> {
        Ok(json!(v))
    }
    fn serialize_none(self) -> Result<J, Err> {
        Ok(J::Null)
    }
    fn serialize_some<T: ?Sized + Serialize>(self, v: &T) -> Result<J, Err> {
        v.serialize(self)
    }
    fn serialize_unit(self) -> Result<J, Err> {
        Ok(J::Null)
    }
    fn serialize_unit_struct(self, _: &'static str) -> Result<J, Err> {
        Ok(J::Null)
    }
    fn serialize_unit_variant(self, _: &'static str, _: u32, v: &'static str) -> Result<J, Err> {
        Ok(json!(v))
    }
    fn serialize_newtype_struct<T: ?Sized + Serialize>(
        self,
        _: &'static str,
        v: &T,
    ) -> Result<J, Err> {
        v.serialize(self)
    }
    fn serialize_newtype_variant<T: ?Sized + Serialize>(
        self,
        _: &'static str,
        _: u32,
        _: &'static str,
        v: &T,
    ) -> Result<J, Err> {
        v.serialize(self)
    }
    fn serialize_seq(self, len: Option<usize>) -> Result<SeqS, Err> {
        if self.require_seq_len && len.is_none() {
            return Result::Err(Err("sequence length required".into()));
        }
        Ok(SeqS {
            hint: len,
            items: vec![],
            strict: self.require_seq_len,
        })
    }
    fn serialize_tuple(self, len: usize) -> Result<SeqS, Err> {
        Ok(SeqS {
            hint: Some(len),
            items: vec![],
            strict: self.require_seq_len,
        })
    }
    fn serialize_tuple_struct(self, _: &'static str, len: usize) -> Result<SeqS, Err> {
        self.serialize_tuple(len)
    }
    fn serialize_tuple_variant(
        self,
        _: &'static str,
        _: u32,
        _: &'static str,
        len: usize,
    ) -> Result<SeqS, Err> {
        self.serialize_tuple(len)
    }
    fn serialize_map(self, len: Option<usize>) -> Result<MapS, Err> {
        Ok(MapS {
            hint: len,
            items: vec![],
            key: None,
            strict: self.require_seq_len,
        })
    }
    fn serialize_struct(self, _: &'static str, len: usize) -> Result<MapS, Err> {
        self.serialize_map(Some(len))
    }
    fn serialize_struct_variant(
        self,
        _: &'static str,
        _: u32,
        _: &'static str,
        len: usize,
    ) -> Result<MapS, Err> {
        self.serialize_map(Some(len))
    }
}

impl ser::SerializeSeq for SeqS {
    type Ok = J;
    type Error = Err;
    fn serialize_element<T: ?Sized + Serialize>(&mut self, v: &T) -> Result<(), Err> {
        self.items.push(v.serialize(Strict {
            require_seq_len: self.strict,
        })?);
        Ok(())
    }
    fn end(self) -> Result<J, Err> {
        if let Some(h) = self.hint {
            if h != self.items.len() {
                return Result::Err(Err(format!(
                    "seq announced {} elements but emitted {}",
                    h,
                    self.items.len()
                )));
            }
        }
        Ok(J::Array(self.items))
    }
}
macro_rules! seq_like {
    ($tr:ident, $m:ident) => {
        impl ser::$tr for SeqS {
            type Ok = J;
            type Error = Err;
            fn $m<T: ?Sized + Serialize>(&mut self, v: &T) -> Result<(), Err> {
                ser::SerializeSeq::serialize_element(self, v)
            }
            fn end(self) -> Result<J, Err> {
                ser::SerializeSeq::end(self)
            }
        }
    };
}
seq_like!(SerializeTuple, serialize_element);
seq_like!(SerializeTupleStruct, serialize_field);
seq_like!(SerializeTupleVariant, serialize_field);

impl ser::SerializeMap for MapS {
    type Ok = J;
    type Error = Err;
    fn serialize_key<T: ?Sized + Serialize>(&mut self, k: &T) -> Result<(), Err> {
        let k = k.serialize(Strict {
            require_seq_len: self.strict,
        })?;
        self.key = Some(k.as_str().unwrap().to_string());
        Ok(())
    }
    fn serialize_value<T: ?Sized + Serialize>(&mut self, v: &T) -> Result<(), Err> {
        let v = v.serialize(Strict {
            require_seq_len: self.strict,
        })?;
        self.items.push((self.key.take().unwrap(), v));
        Ok(())
    }
    fn end(self) -> Result<J, Err> {
        if let Some(h) = self.hint {
            if h != self.items.len() {
                return Result::Err(Err(format!(
                    "map announced {} entries but emitted {}",
                    h,
                    self.items.len()
                )));
            }
        }
        let mut m = serde_json::Map::new();
        for (k, v) in self.items {
            if m.insert(k.clone(), v).is_some() {
                return Result::Err(Err(format!("duplicate key {}", k)));
            }
        }
        Ok(J::Object(m))
    }
}
impl ser::SerializeStruct for MapS {
    type Ok = J;
    type Error = Err;
    fn serialize_field<T: ?Sized + Serialize>(&mut self, k: &'static str, v: &T) -> Result<(), Err> {
        ser::SerializeMap::serialize_key(self, k)?;
        ser::SerializeMap::serialize_value(self, v)
    }
    fn end(self) -> Result<J, Err> {
        ser::SerializeMap::end(self)
    }
}
impl ser::SerializeStructVariant for MapS {
    type Ok = J;
    type Error = Err;
    fn serialize_field<T: ?Sized + Serialize>(&mut self, k: &'static str, v: &T) -> Result<(), Err> {
        ser::SerializeMap::serialize_key(self, k)?;
        ser::SerializeMap::serialize_value(self, v)
    }
    fn end(self) -> Result<J, Err> {
        ser::SerializeMap::end(self)
    }
}


#[test]
fn list_announces_its_length_to_a_length_prefixed_serializer() {
    let mut doc = AutoCommit::new().with_actor(ActorId::from(vec![1u8; 4]));
    let m = doc.put_object(ROOT, "m", ObjType::Map).unwrap();
    doc.put(&m, "x", 1).unwrap();
    // a map-only document is accepted by the length-prefixed serializer
    let ok = AutoSerde::from(&doc).serialize(Strict {
        require_seq_len: true,
    });
    assert_eq!(ok.unwrap(), json!({"m": {"x": 1}}));

    let l = doc.put_object(ROOT, "l", ObjType::List).unwrap();
    doc.insert(&l, 0, "a").unwrap();
    doc.insert(&l, 1, "b").unwrap();
    let res = AutoSerde::from(&doc).serialize(Strict {
        require_seq_len: true,
    });
    match res {
        Ok(v) => assert_eq!(v, json!({"m": {"x": 1}, "l": ["a", "b"]})),
        Result::Err(e) => panic!(
            "C32 requires every container (also a list, whose length is known: 2) to announce \
             its true length so a length-prefixed serializer can encode it, but serialization \
             failed: {}",
            e
        ),
    }
}
