use automerge::transaction::Transactable;
use automerge::{ActorId, AutoCommit, AutomergeError, ReadDoc, ROOT};

// C06: a call that returns an error leaves the document observably unchanged,
// including the queue of pending (not yet causally ready) changes and the later behaviour.
#[test]
fn rejected_duplicate_seq_change_must_not_drop_pending_changes() {
    let actor_a = ActorId::from(vec![0xaa_u8; 4]);

    // the genuine history of actor A: three changes a1 <- a2 <- a3
    let mut src = AutoCommit::new().with_actor(actor_a.clone());
    src.put(ROOT, "k", 1).unwrap();
    src.commit();
    src.put(ROOT, "k", 2).unwrap();
    src.commit();
    src.put(ROOT, "k", 3).unwrap();
    src.commit();
    let changes = src.get_changes(&[]);
    assert_eq!(changes.len(), 3);
    let (a1, a2, a3) = (changes[0].clone(), changes[1].clone(), changes[2].clone());

    // a different change which also claims (actor A, seq 1)
    let mut other = AutoCommit::new().with_actor(actor_a.clone());
    other.put(ROOT, "other", "x").unwrap();
    other.commit();
    let forged_a1 = other.get_changes(&[])[0].clone();
    assert_ne!(forged_a1.hash(), a1.hash());

    // the receiving document has a1 applied and a3 pending (a2 has not arrived yet)
    let mut doc = AutoCommit::new().with_actor(ActorId::from(vec![0x01_u8; 4]));
    doc.apply_changes([a1.clone()]).unwrap();
    doc.apply_changes([a3.clone()]).unwrap();
    assert_eq!(doc.get_heads(), vec![a1.hash()]);
    assert_eq!(doc.get_missing_deps(&[]), vec![a2.hash()]);

    // a control document in the same state which never sees the failing call
    let mut control = AutoCommit::new().with_actor(ActorId::from(vec![0x01_u8; 4]));
    control.apply_changes([a1.clone()]).unwrap();
    control.apply_changes([a3.clone()]).unwrap();

    // the failing call
    let err = doc.apply_changes([forged_a1]).unwrap_err();
    assert!(matches!(err, AutomergeError::DuplicateSeqNumber(1, _)));

    assert_eq!(doc.get_heads(), control.get_heads());
    assert_eq!(
        doc.get_missing_deps(&[]),
        control.get_missing_deps(&[]),
        "C06: apply_changes returned DuplicateSeqNumber, so the pending queue must be unchanged \
         (a3 is still waiting for a2)"
    );

    // later behaviour: when a2 arrives, a3 becomes ready too
    doc.apply_changes([a2.clone()]).unwrap();
    control.apply_changes([a2.clone()]).unwrap();
    assert_eq!(control.get_heads(), vec![a3.hash()]);
    assert_eq!(
        doc.get_heads(),
        control.get_heads(),
        "C06: after a rejected apply_changes the document must behave like one that never saw the call"
    );
    assert_eq!(doc.get(ROOT, "k").unwrap().unwrap().0.to_i64(), Some(3));
}
