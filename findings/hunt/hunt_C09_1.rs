use automerge::transaction::Transactable;
use automerge::{ActorId, AutoCommit, ReadDoc, ScalarValue, ROOT};

// C09: the patches emitted for a local edit must turn the previous view into the new state,
// including the conflict flag.
#[test]
fn local_put_of_equal_value_over_a_conflict_must_clear_the_conflict_flag() {
    let mut a = AutoCommit::new().with_actor(ActorId::from(vec![1u8]));
    let mut b = AutoCommit::new().with_actor(ActorId::from(vec![3u8]));
    a.put(ROOT, "k", ScalarValue::Null).unwrap();
    a.commit();
    b.put(ROOT, "k", ScalarValue::Int(10)).unwrap();
    b.commit();
    a.merge(&mut b).unwrap();

    // materialized view of the conflicted state
    let mut view = a.hydrate(&ROOT, None).unwrap();
    a.update_diff_cursor();
    assert_eq!(a.get_all(ROOT, "k").unwrap().len(), 2);

    // overwrite both conflicting values with a value equal to the current winner
    a.put(ROOT, "k", ScalarValue::Int(10)).unwrap();
    a.commit();
    assert_eq!(a.get_all(ROOT, "k").unwrap().len(), 1);

    let patches = a.diff_incremental();
    view.apply_patches(a.text_encoding(), patches.clone())
        .unwrap();
    let expected = a.hydrate(&ROOT, None).unwrap();
    assert_eq!(
        view, expected,
        "C09: applying the emitted patches to a view of the previous state must yield the new \
         state including conflict flags; the put resolved the conflict on `k` but the patches \
         were {patches:?}"
    );
}
