use automerge::transaction::Transactable;
use automerge::{ActorId, AutoCommit, ObjType, ReadDoc, ScalarValue, ROOT};

// Property C07: parents_at(heads) must equal parents() on a document which
// contains exactly the ancestors of `heads`.
//
// Scenario: key "c" of the root holds a conflict between a counter (1@01) and
// a text object (1@02, the winner). Actor 01, which has only seen its counter,
// increments it (2@01). The increment op sorts after the text object's make op
// within the key. The text object is still the visible winner of "c".
#[test]
fn parents_at_of_conflict_winner_next_to_an_incremented_counter() {
    let mut d1 = AutoCommit::new().with_actor(ActorId::from(vec![1u8]));
    let mut d2 = AutoCommit::new().with_actor(ActorId::from(vec![2u8]));

    d1.put(&ROOT, "c", ScalarValue::counter(1)).unwrap(); // 1@01
    d1.commit();
    let text = d2.put_object(&ROOT, "c", ObjType::Text).unwrap(); // 1@02
    d2.commit();
    d1.increment(&ROOT, "c", 5).unwrap(); // 2@01, only sees the counter
    d1.commit();

    d1.merge(&mut d2).unwrap();
    let old_heads = d1.get_heads();

    // one more change so that `old_heads` is a historical read
    d1.put(&ROOT, "other", 1).unwrap();
    d1.commit();

    // the text object is the winner of "c" at old_heads
    let (_, winner) = d1.get_at(&ROOT, "c", &old_heads).unwrap().unwrap();
    assert_eq!(winner, text);

    let at: Vec<_> = d1.parents_at(&text, &old_heads).unwrap().collect();
    assert_eq!(at.len(), 1);
    assert!(
        at[0].visible,
        "C07: the text object is the visible winner of root[\"c\"] at old_heads (get_at returns it), \
         so parents_at must report visible == true as parents() does on a document containing \
         exactly those changes; got {:?}",
        at
    );
}
