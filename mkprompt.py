#!/usr/bin/env python3
"""mkprompt.py <PID> <N1> <N2>: write /tmp/prompt_<PID>.txt (and a copy under seed_prompts/) for a seeding agent:
the property text from properties.jsonl plus the fixed task description. Nothing from /verif's checks is included."""
import json, sys, os
pid, n1, n2 = sys.argv[1], sys.argv[2], sys.argv[3]
prop = [json.loads(l) for l in open("/verif/properties.jsonl") if json.loads(l)["id"] == pid][0]
low = pid.lower()
W = "/tmp/seed_%s" % pid
a = prop["anchors"]
crate_hint = "rust/automerge/tests"
txt = f"""You are helping to evaluate a verification framework by writing a realistic BUG INJECTION for the open-source project automerge (Rust CRDT library). Work ONLY inside the scratch git worktree {W} (a checkout of the repository; the Rust workspace is {W}/rust). Do NOT read, write or list anything under /verif or /repo, and do not look at other /tmp/seed_* directories.

PROPERTY {pid}: {prop['title']}
Statement: {prop['statement']}
Quantifier: {prop['quantifier']['text']}
Why the existing tests cannot settle it: {prop['why_tests_cant']}
Anchors (files): {', '.join(a['files'])}
Mechanisms: {'; '.join('%s @ %s' % (m['name'], m['where']) for m in a['mechanism'])}

TASK: produce TWO different, independent changes to the library source (not to tests) that each BREAK this property while (a) the workspace still compiles and (b) the existing test suite still passes. Each change must need something specific to manifest — a particular interleaving or order of calls, a fault/corruption at a particular point, a multi-step sequence of operations, an unusual input, or two cooperating sites that each look fine alone — NOT something ordinary use would expose at once. Make them look like plausible mistakes or "optimisations" a maintainer could make (a weakened condition, a reordered step, a dropped check on one path, a fast path that skips a step, a wrong variable), touching few lines. The two changes should be in different functions or of a different nature.

For EACH change N in ({n1}, {n2}):
 1. Write a demonstration: a new Rust integration test file {W}/{crate_hint}/seed_{low}_N.rs (or a test for the relevant crate) that FAILS with the change and PASSES without it. Use only crates that are already dev-dependencies (no network is available; always pass --offline to cargo; set CARGO_TARGET_DIR={W}/target for every cargo command so build output stays inside your directory).
 2. Verify: with the change applied, run the demonstration (must fail) and the existing tests of the affected crate(s), at minimum `cd {W}/rust && CARGO_TARGET_DIR={W}/target cargo test --offline -p automerge` (plus `-p hexane` / `-p automerge-cli` / `-p automerge-c` if you touched them) — all pre-existing tests must pass. Then without the change (git stash or reverse patch), the demonstration must pass.
 3. Save into the directory {W}/out/N/ : `patch.diff` (output of `git diff` for the library source change ONLY, paths relative to the repository root, applicable with `git apply`), the demonstration test file `demo.rs` (copy), and `meta.json` with keys: property ("{pid}"), summary (one sentence: what was changed), needs (what specific input/sequence/schedule is needed for it to manifest), demo_cmd (the exact cargo command that runs the demonstration), ran (list of commands you ran and their outcome).
Leave the worktree's source files restored to the original state at the end (git checkout -- . ; the out/ directory and untracked demo tests may stay). Do not commit anything. Builds take a few minutes; be patient, and keep builds to what is needed. Finish by replying with a short summary of the two changes and the paths written."""
open("/tmp/prompt_%s.txt" % pid, "w").write(txt)
open("/verif/seed_prompts/prompt_%s.txt" % pid, "w").write(txt)
print("/tmp/prompt_%s.txt" % pid)
