#!/usr/bin/env python3
"""Regenerate the table of seeded changes in DESIGN.md §9.4 from seeded/*/meta.json."""
import json, glob, os, collections, re
HERE = os.path.dirname(os.path.abspath(__file__))
det = collections.defaultdict(list)
und = []
n = 0
for d in sorted(glob.glob(os.path.join(HERE, "seeded", "*"))):
    m = json.load(open(os.path.join(d, "meta.json")))
    n += 1
    name = os.path.basename(d)
    if m.get("detected_by"):
        for x in m["detected_by"]:
            det[x["check"]].append("%s (%s)" % (name, x["expect"].split("|")[0]))
    else:
        und.append((name, re.sub(r"\s+", " ", (m.get("summary") or ""))[:150]))
lines = ["| check | seeded changes it reports (rule) |", "|---|---|"]
for k in sorted(det):
    lines.append("| %s | %s |" % (k, ", ".join(det[k])))
lines.append("")
lines.append("**%d adopted changes, %d detected, %d not detected.** Not detected (each needs value-level reasoning no rule here does):" % (n, n - len(und), len(und)))
lines.append("")
for name, summ in und:
    lines.append("* %s — %s…" % (name, summ))
block = "\n".join(lines) + "\n"
p = os.path.join(HERE, "DESIGN.md")
s = open(p).read()
a, b = "<!-- seedtable:begin -->", "<!-- seedtable:end -->"
if a in s:
    s = s[:s.index(a) + len(a)] + "\n" + block + s[s.index(b):]
    open(p, "w").write(s)
print(block)
