#!/bin/sh
# usage: verify_seed.sh <PID> <N> ; confirms a seeded change in its scratch worktree /tmp/seed_<PID>
# (1) patch applies, (2) demo FAILS with it, (3) existing tests of the touched crates pass with it, (4) demo PASSES without it.
PID=$1; N=$2; W=/tmp/seed_$PID; O=$W/out/$N
export CARGO_TARGET_DIR=$W/target CARGO_NET_OFFLINE=true
cd $W || exit 2
git checkout -q -- . || exit 2
low=$(echo $PID | tr A-Z a-z)
demo=$(python3 -c "import json;print(json.load(open('$O/meta.json')).get('demo_cmd',''))")
echo "demo_cmd: $demo"
git apply --check $O/patch.diff || { echo "RESULT patch-does-not-apply"; exit 1; }
git apply $O/patch.diff
crates=$(git diff --name-only | sed -n 's#^rust/\([^/]*\)/.*#\1#p' | sort -u | tr '\n' ' ')
echo "touched crates: $crates"
(cd rust && sh -c "$demo" > $O/demo_with.log 2>&1); w=$?
pk=""; for c in $crates; do pk="$pk -p $c"; done
(cd rust && cargo test --offline $pk --no-fail-fast > $O/suite_with.log 2>&1); s=$?
# demo tests are part of the suite run (untracked test file): count failures other than the demo
fails=$(grep -E "^error: test failed, to rerun pass" $O/suite_with.log | grep -v -- "--test seed_" | wc -l)
git checkout -q -- .
(cd rust && sh -c "$demo" > $O/demo_without.log 2>&1); wo=$?
echo "RESULT demo_with_exit=$w suite_exit=$s other_failed_tests=$fails demo_without_exit=$wo"
