#!/usr/bin/env python3
"""Regenerates MANIFEST.json from the per-property table below. A property is claimed iff
amverif/props/<id>.py exists; everything else is listed under not_applicable with its reason."""
import json
import os

HERE = os.path.dirname(os.path.abspath(__file__))

# id -> (level category, technique, level text, level note, design ref)
CLAIMS = {
    "C14": ("proof", "MIR dominance rule: checksum test must dominate every use of a parsed chunk (must-check-before-use) + return-value tables + provenance of Header.hash",
            "Enumerates every Chunk::parse call site reachable from a byte-taking load entry point and proves on the CFG that all content uses of the chunk are dominated by the checksum_valid()==true edge and that the false edge only returns Err; plus per-variant delegation to Header::checksum_valid and hash provenance. Finite obligation set, all discharged on every run.",
            "Decides the checksum-before-use discipline, not the collision resistance of the 32-bit checksum nor panic-freedom of the parser that runs before the test (C15). Trusted: rustc MIR, the driver, rule code.", "DESIGN.md §3 C14"),
    "C22": ("proof", "MIR edge-dominance (control dependence) of every document-mutating construct on `sync_state.read_only == false`; delegation-only check of wrappers; &self receiver and interior-mutability scan for message generation",
            "Enumerates every call/write in the receive path that can mutate the Automerge document (typed &mut arguments and writes rooted at the document parameter) and proves each is dominated by the read_only==false edge; every other SyncDoc::receive_* implementation may only delegate; generate_sync_message implementations take &self and no reachable field type has interior mutability. Finite obligations, all discharged.",
            "Decides that a read-only peer's document cannot be mutated by receiving; does not decide the liveness halves of the property (other peer receives everything, catch-up after toggling). AutoCommit's wrapper commits the user's own pending transaction before receiving; that is local state, not incoming changes.", "DESIGN.md §3 C22"),
    "C38": ("proof", "who-may-call closure over the resolved call graph + MIR edge-dominance of duplicate-sequence tests before admission + provenance of the local sequence number",
            "Closes the set of functions that can add a change to the change graph (add_change(s), update_history, BatchApply, ChangeQueue::extend, ChangeBatch::push) and proves, inside the single admission function, that accepting a change is dominated by the false edges of both has_actor_seq tests (true edges return Err), that the queue is only extended after the loop, that BatchApply is fed from pop_topo_sorted_ready, that ChangeBatch::push tests in-batch duplicates before inserting, and that a local commit's seq is seq_for_actor+1 with the conflicting queued branch removed first.",
            "Decides the gating structure, not that the predicates compute the right answer for every history; ChangeGraph::load (ChangeCollector) is not covered.", "DESIGN.md §3 C38"),
    "C23": ("proof", "structural rules on sync::bloom over MIR: shared probe function (call graph + provenance), bounds-tolerant bit access, Div/Rem assert inventory with dominating non-zero tests, return-value table of contains_hash",
            "Proves that add_hash and contains_hash take probes from the same get_probes and reach the bit array only through get/get_mut with an identical byte/bit decomposition (so membership written is membership read), that every division/remainder in the module has a constant non-zero divisor or a dominating non-zero test (the only arithmetic panic that survives release builds), that array indexing in the query path is constant-in-range, and that `false` is returned only under the three enumerated conditions.",
            "Decides the shape-level necessary conditions of 'no false negatives / no crash', not the probe arithmetic itself (u32 overflow of x+y needs a >256 MiB filter and panics only in debug builds) nor value round-trip (C19). The rule fired on the pinned tree (remainder by zero on a decoded filter without bits): repaired by fix: e8c64fed1.", "DESIGN.md §3 C23"),
    "C30": ("proof", "provenance of OpId::new's actor-index argument + MIR edge-dominance by the hint-validation test; error return on failed lookup",
            "In the two functions that turn external ids/cursors into internal OpIds, proves that the ExId's actor-index hint reaches OpId::new only under get_actor_safe(hint)==Some(actor), that every other index comes from lookup_actor(actor), and that a failed lookup returns Err.",
            "Decides only the id-resolution clause (an unverified hint would address another actor's object after the actor table shifts); stability across merges and save/load is runtime state and not decided.", "DESIGN.md §3 C30"),
    "C07": ("proof", "return-value table + edge-dominance for clock_at / get_scope; provenance of the clock argument in every heads-taking ReadDoc method (4 implementations, enumerated from the trait)",
            "Proves that the unscoped fast path (clock None) is taken only when heads_are_current(heads), that every ReadDoc method with a heads parameter in Automerge, AutoCommit, Transaction and OwnedTransaction passes its worker a clock derived from that parameter and never a literal None, and that AutoCommit::get_scope uses the fast path only while no transaction is open.",
            "Decides that historical reads are routed through a clock computed from the requested heads; does not decide that clock-scoped queries compute the historical value (runtime visibility).", "DESIGN.md §3 C07"),
    "C39": ("proof", "inventory of unchecked str conversions over MIR (calls + transmutes), call-graph closure of hexane's validating load path, who-may-construct for trusting decoders, and must-validate-before-trust dominance at every String-typed trusting-decoder site outside hexane",
            "Proves the validate-before-trust discipline that makes the single from_utf8_unchecked sound: it is the only unchecked conversion in the four crates; the validating loaders never reach RleValue::unpack and decode with try_unpack; trusting RleDecoders are constructed only by a reviewed set of hexane functions; and every String-typed streaming decoder outside hexane is over a literal empty slice or dominated by a Column::load of the same bytes whose error exits.",
            "Near-complete for the stated mechanism; not decided: value fidelity of decoded strings. The rule fired on the pinned tree (bundle message/key/mark-name columns decoded by the trusting decoder straight from wire bytes): repaired by fix: 796a9f3bc. Trusting decoders over wire bytes for non-string types are C15's subject.", "DESIGN.md §3 C39"),
    "C32": ("proof", "provenance obligations over MIR of the three serde serializers: object argument of every ReadDoc call, size-hint operand, child-serializer object ids, exhaustiveness of the ObjType dispatch",
            "Proves that every document read made while serializing (length, keys, get, text) targets the object being serialized, that the serialize_map/serialize_seq size hint is None or the length of that same object, that children are serialized under the id returned for them, and that every ObjType has an arm.",
            "Decides structural clauses only (a serializer reading another object or announcing another object's length corrupts the export); faithfulness of values and ordering is runtime state. The rule fired on the pinned tree (nested maps announced the root's length): repaired by fix: 9d6da1bb0.", "DESIGN.md §3 C32"),
    "C27": ("proof", "provenance obligations over MIR of update_list / update_map / update_value: index of deleting calls must depend on the target, deletion set fed only on the None arm of target.get, nested target handed to the matching reconciler",
            "Proves three necessary conditions of update_object reaching its target: surplus list elements are deleted at positions derived from the target (not from a count alone), map keys are deleted only when the target lacks them and added from the target, and nested values recurse into the matching reconciler.",
            "Thin: Myers diff, update_spans and batch construction are value-level and not decided. The rule fired on the pinned tree ([a,b,c] -> update_object([x,y]) gave [y,c]): repaired by fix: 3dcdfdc40.", "DESIGN.md §3 C27"),
    "C13": ("proof", "must-pass-through on the CFG of both loaders: from each arm of the LoadedChanges match every Ok exit passes apply_changes* over that arm's payload (and the first chunk's changes); edge rule for on_partial_load",
            "Proves that neither loader can return Ok while dropping a collection of completely parsed changes (first chunk, Complete(c), Partial{loaded}) and that an Ok after a failed chunk requires on_partial_load != Error.",
            "Decides the no-drop clause; chunk-boundary arithmetic and panic-freedom are not decided. The rule fired on the pinned tree (OnPartialLoad::Ignore dropped the first chunk's changes and all chunks loaded before the failure): repaired by fix: be08eb1f0.", "DESIGN.md §3 C13"),
    "C12": ("proof", "must-pass-through (dominance) of ensure_transaction_closed before every history-sensitive use of self.doc in AutoCommit, who-may-construct SyncWrapper, provenance and ordering of the save cursor, shape of Automerge::save_after",
            "Enumerates every call in AutoCommit/SyncWrapper that hands self.doc to a history-sensitive Automerge method and proves ensure_transaction_closed dominates it (a pending transaction's ops are not in the change graph, so a save taken with it open omits them); proves save_incremental saves after self.save_cursor and only then advances the cursor to doc.get_heads(), and that save_after emits raw_bytes of get_changes(heads).",
            "Decides the closure discipline and cursor handling, not that the written chunks reload to an equal document (C11/C18) nor idempotence of reloading (C01). One reviewed exception (Transactable::base_heads, by specification the pre-transaction heads) in tables/r10_close.tsv.", "DESIGN.md §3 C12"),
    "C04": ("proof", "who-may-write rule for the two heads sets, sibling agreement of their updaters, call-chain check, provenance of start_op/deps of a local change and field identity between TransactionArgs and TransactionInner",
            "Proves that Automerge.deps and ChangeGraph.heads are written only by their constructors and the two updaters, that both updaters remove change.deps() and then unconditionally insert change.hash(), that update_history/add_changes invoke them, and that a local change gets start_op = max_op()+1 and deps = heads argument or current heads plus the actor's previous change.",
            "Thin: decides the maintenance structure, not that the heads set is correct for every history nor the graph algorithms; seq is decided under C38.", "DESIGN.md §3 C04"),
    "C10": ("proof", "provenance of Header.hash and of the digest inside chunk::hash (argument order of the SHA-256 updates), accessor-chain return tables, who-may-construct ChangeHash, closure discipline of AutoCommit's history getters",
            "Proves the content-addressing clause: Change::hash() reads Header.hash, every Header gets its hash from chunk::hash over the data whose length it records, chunk::hash feeds SHA-256 with type byte and LEB128 length before the data and returns the digest, no other code fabricates a ChangeHash except the two parsers, and AutoCommit closes the pending transaction before returning history.",
            "Decides the hash clause only; byte-identity of changes rebuilt from the op set and exactness/order of get_changes(have) are runtime-valued and not decided.", "DESIGN.md §3 C10"),
    "C18": ("proof", "match-table extraction from MIR (enum->tag and tag->enum switch arms, nested patterns) and inverse / sibling-agreement checks over every tag table of the binary formats; wire-checksum provenance on the compressed-change path",
            "Proves that Action<->u64, ChunkType<->u8, ColumnType<->u8 and ValueType<->type-code tables are mutually inverse with erroring (or total) wildcard arms, that the three ValueMeta encoders and two decoders agree, that the Action<->ObjType codec tables agree, that every enum variant has a code, and that decompression keeps the wire checksum while hashing the inflated data.",
            "Decides the tag-table clause: a swapped or missing arm breaks the round trip of every change using that tag. Byte-level round-trip of column contents is not decided.", "DESIGN.md §3 C18"),
    "C19": ("proof", "wire-grammar abstraction of encoder/decoder pairs from MIR (token sequences RAW/LEB/counted-LOOP on non-error paths, helper functions and closures inlined) with inclusion check, plus field identity by provenance",
            "For six encode/decode pairs (ExId, Cursor, BloomFilter, chunk Header, sync State, sync Message) proves that every token sequence the encoder can emit is consumed by the decoder on a non-error path, and for the multi-integer formats that the k-th integer written comes from the field the k-th integer read is stored into.",
            "Decides grammar and field agreement, not value-level equality after a round trip nor the text (Display/FromStr) forms; id resolution against differently numbered actors is C30.", "DESIGN.md §3 C19"),
    "C11": ("proof", "column-specification set agreement and per-spec field identity between writer, validator and reader of the op columns and of the change-graph columns (MIR switch values, named constants with evaluated values, provenance into struct fields)",
            "Proves that the sets of column specs written by export_column / ChangeGraph::encode, accepted by validate and read by load are equal (16 and 9) and that each spec is saved from and loaded into the same struct field (hence with the same codec).",
            "Thin: everything value-level in C11 (equal heads, bytes, historical state, idempotent re-save) is not decided.", "DESIGN.md §3 C11"),
    "C28": ("proof", "do/undo sibling agreement on mutated-field sets (MIR mutable borrows and writes rooted at self, closures and same-type helpers included), reverse-order undo and guard in rollback, must-pass-through from every op-set mutation in a transaction to pending.push, storage of the undo list",
            "Proves for six do/undo pairs (successor columns, Columns splice/remove, OpSet splice/undo_op, and the three insert_actor/remove_actor pairs) that the backward half touches every field the forward half mutates; that rollback undoes pending ops in reverse via undo_op and removes the actor only for a first change; and that every mutation of the op set inside a transaction is pushed onto pending with its undo list stored.",
            "Decides that nothing mutated by an aborted transaction is left without an undo path; does not decide that the restored values equal the prior ones.", "DESIGN.md §3 C28"),
    "C33": ("proof", "sibling agreement of import_map / import_list arm by arm (MIR switch on the serde_json::Value discriminant, generic instantiation of put/insert per arm, ObjType constants, order of the numeric fall-backs), plus C32's export rules",
            "Proves that both CLI importers match every JSON variant without a wildcard and store the same thing per variant (same value type, same ObjType with recursion into the matching importer, numbers tried as i64 then u64 then f64), and re-checks the structural rules of the AutoSerde export.",
            "Thin: the value-level round trip through a saved document is not decided.", "DESIGN.md §3 C33"),
    "C36": ("proof", "FFI pointer discipline over every extern \"C\" function (enumerated by ABI): classification of all uses of raw-pointer parameters, edge-dominance of direct dereferences by is_null()==false, who-may-call Box::from_raw/into_raw, who-may-dereference stored raw pointers",
            "Proves that raw pointer parameters of the 168 extern functions are used only through null-tolerant conversions, reviewed callees, inventoried from_raw_parts, or dereferences guarded by a null test of the same parameter; that owning pointers have exactly one release path (AMresultFree, null-guarded) and two creation sites; and that stored raw pointers are dereferenced only in a reviewed accessor set.",
            "Thin: decides pointer discipline, not lifetime validity of stored pointers, leak-freedom, or agreement with the Rust API. Six out-parameter writes in AMsyncStateTheir{Haves,Heads,Needs} lack the null test the rest of the crate uses; the header documents `has_value != NULL`, so they are reviewed exceptions (tables/r14_deref.tsv), not findings.", "DESIGN.md §3 C36"),
    "C06": ("other", "error-after-mutation analysis: bottom-up may-mutate / may-fail summaries over MIR, CFG reachability from mutation points to Err exits, automatic discharge by may-fail and pre-validation twins, reviewed table for infeasible pairs, known-findings file for confirmed leftovers",
            "Enumerates every (mutation, later error return) pair in the apply path (apply_changes*, load_incremental*, merge*, sync receive, BatchApply) and in the transaction operations, and requires each to be discharged automatically, reviewed as infeasible (tables/eam.tsv, one reason per row) or listed as a known finding; also proves that the fallible patch-log migration precedes every mutation in the admission function.",
            "Level 'other': soundness of the reviewed rows rests on the stated reasons. A new error exit after a mutation is reported until reviewed (that is the price of the rule). Fired on the pinned tree: PatchLogMismatch after actors were inserted and changes popped (fix: 93cdd6d98); mark() failing after inserting its begin op (fix: f1cd5c1c9); a rejected duplicate-seq change prunes the pending queue (known finding, not repaired).", "DESIGN.md §3 C06"),
    "C15": ("other", "panic-discipline inventories over type-checked MIR: (R7a) Result::unwrap/expect classified by error type and source callee; (R7b) every panic-capable construct (bounds/division asserts, slice/str indexing, split_at, copy_from_slice, macro panics, Option::unwrap) in the frozen parse layer and the apply-side functions where triage showed wire content arriving, discharged by dominance patterns (length guard, divisor guard, constant index, find()-derived str index) or a reviewed row; (R6d) must-validate-before-trust: a validating Column::load of the same bytes and type dominates every trusting streaming decoder outside hexane",
            "Every one of the enumerated sites is discharged by a local pattern, by a reviewed row (tables/unwrap_result.tsv, tables/panic_sites.tsv, one reason each) or is a listed known finding with a concrete input; a new unwrap of an error channel, a new unguarded index/split in the parse layer, or a new trusting decoder over unvalidated wire bytes is reported.",
            "Level 'other': an inventory with reviewed rows, not a proof of panic-freedom. Not decided: panics in the op-set / index machinery beyond the listed functions, debug-only overflow asserts, hangs and allocation (C17). Fired on the pinned tree: 11 defects repaired by fix: commits (import_obj hex, Cursor::from_str, OpId counters, change-metadata columns, bundle columns, value length, actor indexes x2, out-of-order deps, unbundle unwrap, duplicate ops); 10 apply-side panic sites reachable with well-formed but semantically invalid changes are known findings (BatchApply has no error channel; not a small repair).", "DESIGN.md §3 C15"),
    "C37": ("other", "API-layer panic discipline over type-checked MIR: Result::unwrap/expect inventory (R7a); inventory of macro panics, Option::unwrap, indexing and panicking sequence-API calls with dominance patterns — must-pass-through ensure_transaction_open before self.transaction.unwrap(), typestate (only self-consuming methods empty a transaction handle's inner slot), control dependence of hydrate's sequence edits on a len() comparison (R7d); provenance of caller-supplied ExId parameters into exid_to_obj/exid_to_opid only (R7e)",
            "Every enumerated site in automerge.rs, autocommit.rs, transaction/*, hydrate*, autoserde, patches, marks and automerge-c's unwraps is discharged by a pattern, reviewed (tables/api_panic_sites.tsv, tables/unwrap_result.tsv) or reported; a new unwrap of AutomergeError, a mutating AutoCommit method that skips ensure_transaction_open, a &mut-self method that empties a transaction handle, an unguarded sequence edit in hydrate or direct use of ExId fields is reported.",
            "Level 'other': inventory with reviewed rows. Not decided: panics in the op-set queries, sequence tree and text_diff reached with valid ids. Fired on the pinned tree: hydrate::Value::apply_patches hit todo!() on library-produced Mark patches (fix: c9d192d6a) and sequence-tree asserts on stale / out-of-range patches (fix: 9c5d779aa); OpId counters above u32::MAX from caller-supplied ids (fix: 179c483cf, decided under C30/C15).", "DESIGN.md §3 C37"),
    "C17": ("other", "taint analysis over type-checked MIR: sources = integers read by the LEB128 parsers, struct fields filled from them (computed per run), values yielded by hexane decoders; sinks = allocation sizes (with_capacity, vec![x; n], reserve, resize, repeat_n), ends of iterated integer ranges; sanitisers = min, len, take_n/split, try_reserve; interprocedural through 'parameter reaches a sink' summaries; plus an inventory of element-by-element materialisations of run-length columns over wire bytes in the parse layer",
            "Every allocation-size site and every iterated integer range in the automerge crate is examined; a wire-controlled size or bound without a sanitiser, and every column materialisation over wire bytes, is reported unless reviewed (tables/c17_sizes.tsv) or a listed known finding with a concrete input and measured cost.",
            "Level 'other'. Decides which wire numbers can size an allocation or a loop, not the polynomial bound itself nor the cost of merge / index algorithms. Fired on the pinned tree: a 9-byte Bloom filter cost 1 GB and 4 s per membership test (fix: e11ece4c1); bundle dep / pred counts used as Vec capacities, 'capacity overflow' panic (fix: cb9773955). Known findings (not small repairs: the format lets a run header announce 2^63 values): change-metadata columns, the bundle ID_CTR_INVERSE column and the bundle dep / pred loops materialise such runs; 120-140 byte inputs cost 256 MB - 2 GB and 1 - 38 s.", "DESIGN.md §3 C17"),
    "C35": ("other", "panic-discipline inventory over the resolved-call closure of hexane's validating load entry points (bounds/division asserts, slice indexing, macro panics, Option::unwrap, signed negation) with dominance-based discharge patterns and reviewed rows; must-pass-through: validate_after dominates CutState::track with its error leaving; C39's who-may-trust rules re-run",
            "Decides the 'loading arbitrary bytes returns a column or an error and never panics' clause structurally: every panic-capable construct on the path that validates untrusted column bytes is discharged, reviewed (tables/hexane_load_sites.tsv) or reported; every run-length segment is validated before it is accounted; the trusting decode path is reachable only where C39 allows.",
            "Level 'other': inventory with reviewed rows, for one clause of C35. Not decided: value round-trip equality and cross-type loading (runtime values), add/mul overflow asserts of debug builds on adversarial run counts, resource amplification (C17). Fired on the pinned tree: a literal-run header of i64::MIN panicked the validating loader in builds with overflow checks (fix: a46047e5f).", "DESIGN.md §9.6"),
    "C05": ("proof", "MIR edge-dominance and provenance rules over the three functions that implement the hold-back discipline (Kahn's algorithm in ChangeQueue::pop_topo_sorted_ready, Automerge::missing_deps_from, ReadDoc::get_missing_deps) and who-may-call BatchApply::push",
            "Finite obligation set, all discharged on every run: missing-dependency counters are incremented only under change_graph.has_change(dep)==false for deps of the change and decremented only inside the release loop; a change is released only on the true edge of `count == 0`; a hash is reported missing only when neither applied nor held and held changes' deps are followed; the search is seeded with queue and heads; only released changes reach BatchApply.",
            "Decides the gating discipline (a necessary condition of 'held back until ready' and of 'reports exactly'), not order-independence of the final state (C01) nor the reported set as a value. Trusted: rustc MIR, the driver, rule code.", "DESIGN.md §9.7"),
    "C29": ("proof", "MIR provenance and edge-dominance rules over the scope plumbing of transactions: every clock argument passed by TransactionInner / BatchInsertion derives from self.scope only; TransactionInner.scope is the scope of its TransactionArgs; transaction_args sets Some(isolation clock) exactly on the isolation arm; plus the dependency rules of C04 and the scoped-read rules of C07 re-run",
            "Finite obligation set, all discharged on every run: an edit inside an isolated transaction never looks the document up with a literal None or a foreign clock, the scope is the one the transaction was opened with, committed changes depend only on the chosen heads and the isolated chain, and reads with heads or under an open transaction go through the scoping helpers.",
            "Decides the scope plumbing (a necessary condition of 'reads show the state at those heads' and of 'changes depend only on those heads'), not the value the scoped queries return nor the state after integrate. Trusted: rustc MIR, the driver, rule code.", "DESIGN.md §9.8"),
    "C24": ("proof", "who-may-construct and who-may-count rules over the type-checked program: TextEncoding literals only in platform_default; provenance of every TextEncoding call operand (field or parameter); raw string-unit counting (str::len, chars, encode_utf16, graphemes, bytes) only in TextEncoding::width and a reviewed set of per-encoding helpers; TextEncoding::width has one arm per variant using the matching primitive",
            "Finite obligation set, all discharged on every run: no code path hardcodes an encoding, every width / seek / length computation receives the document's encoding, and no function outside the reviewed set counts string units itself.",
            "Decides the 'one source of units' discipline — a necessary condition of 'all indexes are measured in the document's encoding' — not the correctness of the widths stored in the text index through edits and merges (runtime values). Trusted: rustc MIR, the driver, rule code, the reviewed helper list.", "DESIGN.md §9.9"),
    "C03": ("other", "the error-after-mutation analysis of C06 restricted to the editing calls C03 lists, plus agreement of the op set's Action->ObjType table with the make-actions the encoder writes",
            "For put, put_object, insert, insert_object, delete, increment, splice, splice_text, mark, unmark, split_block, join_block: every (mutation, later error) pair in the functions they reach is discharged, reviewed or a known finding; and every object kind put_object can create is one the op set registers.",
            "Decides only the last sentence of C03 (an invalid call changes nothing) and the object-registration clause; the sequential effect itself is runtime-valued. Known finding: ObjType::Table objects are never registered (put_object returns an unusable id).", "DESIGN.md §3 C03"),
}

NA_PLANNED = "rule designed in DESIGN.md §3 but its checker is not built in this revision, so nothing is claimed yet"

NOT_APPLICABLE = {
    "C01": "convergence over all delivery orders is equality of runtime states computed by op-id ordering and merge arithmetic; no structural clause is both a necessary condition and statically checkable beyond the duplicate-gating already decided under C38 (static analysis cannot bound the merge result)",
    "C02": "equality with a reference CRDT interpretation needs a functional specification of the op set plus a prover; winner/sibling order is index arithmetic over runtime op ids, invisible in code shape",
    "C05": "release order and get_missing_deps exactness are graph algorithms over runtime hashes; the gating call chain is decided under C38, nothing further has a code-shape necessary condition",
    "C08": "patch semantics over runtime visibility between two arbitrary heads; no shape-level necessary condition identified",
    "C09": "incremental patch correctness is value-level agreement between a materialized view and the op set; no shape-level necessary condition identified",
    "C16": "a global invariant of decoded column values; needs value-range reasoning across the whole load path (the crash sites found there are reported under C15)",
    "C20": "two-peer sync convergence/quiescence is liveness over message schedules; static analysis of code shape cannot decide it",
    "C21": "multi-peer convergence across disconnects is liveness over schedules",
    "C24": "text index consistency is width arithmetic over a prefix-sum index (runtime values)",
    "C25": "Peritext mark semantics is value-level agreement of two algorithms over runtime marks",
    "C26": "cursor tracking is index arithmetic over tombstones at runtime",
    "C29": "scoped-read semantics of isolated transactions are runtime-valued; the structural deps clause is decided under C04",
    "C31": "shape preservation is a graph isomorphism of runtime data",
    "C34": "functional correctness of slab editing against a Vec model quantifies over runtime contents",
    "C35": "round-trip equality and safe rejection need numeric ranges of decoded run lengths; the validate-before-trust discipline it relies on is decided under C39/C15",
    "C40": "which values are visible strings is runtime state; the one structural candidate (commit only when conversions exist) is not a necessary condition",
}


def main():
    props = [json.loads(l) for l in open(os.path.join(HERE, "properties.jsonl"))]
    checks, na = [], []
    for p in props:
        pid = p["id"]
        have = os.path.exists(os.path.join(HERE, "amverif", "props", pid + ".py"))
        if have and pid in CLAIMS:
            cat, tech, text, note, ref = CLAIMS[pid]
            checks.append({
                "property_id": pid,
                "quick_cmd": "./check %s --tier quick" % pid,
                "thorough_cmd": "./check %s --tier thorough" % pid,
                "evidence_file": "/verif/evidence/%s.json" % pid,
                "replay_cmd_template": "cat {path}",
                "engine": "amverif",
                "level_claimed": {"category": cat, "text": text, "design_ref": ref},
                "level_note": note,
                "technique": "static analysis: " + tech,
            })
        else:
            na.append({"property_id": pid, "reason": NOT_APPLICABLE.get(pid, NA_PLANNED)})
    m = {
        "version": 1,
        "setup_cmd": "sh ./setup.sh",
        "hooks": {
            "guard": "none",
            "enable": "no hooks: the checks read /repo's shipped source through a rustc_private driver (cargo +nightly check); nothing in /repo is instrumented",
            "baseline_off_cmd": "cd /repo/rust && cargo test --workspace --no-fail-fast --offline",
            "source_commits": [],
            "add_only": True,
        },
        "engines": [
            {"name": "amverif-driver", "path": "/verif/driver", "serves_properties": [c["property_id"] for c in checks],
             "kind_free_text": "rustc_private fact extractor (MIR, resolved callees, ADTs, impls) run as RUSTC_WORKSPACE_WRAPPER under cargo +nightly check"},
            {"name": "amverif", "path": "/verif/amverif", "serves_properties": [c["property_id"] for c in checks],
             "kind_free_text": "repository-specific static rules over the MIR facts: dominance / must-pass-through, provenance slices, who-may-call closures, match-table agreement, error-after-mutation summaries"},
        ],
        "checks": checks,
        "not_applicable": na,
        "notes": "Technique family: static analysis only. Every check re-extracts facts from /repo's current working tree (cached by content hash of the tree), reports a concrete construct, and fails closed when an anchor or a floor is missing. `./check selftest` replays the mutation patches under selftest/ and seeded/ against scratch copies.",
    }
    with open(os.path.join(HERE, "MANIFEST.json"), "w") as fh:
        json.dump(m, fh, indent=1)
    print("claimed:", [c["property_id"] for c in checks])
    print("not applicable:", len(na))


if __name__ == "__main__":
    main()
