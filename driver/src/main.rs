// amverif-driver: rustc_private fact extractor.
//
// Used as RUSTC_WORKSPACE_WRAPPER under `cargo +nightly check`. For every workspace crate it
// compiles it dumps, after analysis, one JSON-lines file with the MIR of every function body,
// resolved callees, ADT definitions and impl headers. Nothing is executed or interpreted here;
// the rules live in /verif/amverif (Python) and read these facts.
#![feature(rustc_private)]
#![allow(clippy::all)]

extern crate rustc_abi;
extern crate rustc_driver;
extern crate rustc_hir;
extern crate rustc_interface;
extern crate rustc_middle;
extern crate rustc_session;
extern crate rustc_span;

use rustc_driver::Compilation;
use rustc_hir::def::DefKind;
use rustc_hir::def_id::{DefId, LocalDefId};
use rustc_interface::interface::Compiler;
use rustc_middle::mir::{
    self, AggregateKind, AssertKind, BasicBlock, BinOp, Body, BorrowKind, CastKind, Const,
    ConstValue, Operand, Place, ProjectionElem, Rvalue, StatementKind, TerminatorKind,
    UnwindAction, VarDebugInfoContents,
};
use rustc_middle::ty::print::{with_crate_prefix, with_no_trimmed_paths, with_no_visible_paths, PrintTraitRefExt};
use rustc_middle::ty::{self, GenericArgsRef, Instance, Ty, TyCtxt, TypingEnv};
use rustc_span::Span;
use std::fmt::Write as _;
use std::io::Write as _;

struct Cb;

impl rustc_driver::Callbacks for Cb {
    fn after_analysis<'tcx>(&mut self, _c: &Compiler, tcx: TyCtxt<'tcx>) -> Compilation {
        let out = match std::env::var("AMVERIF_OUT") {
            Ok(o) => o,
            Err(_) => return Compilation::Continue,
        };
        let cname = tcx.crate_name(rustc_hir::def_id::LOCAL_CRATE).to_string();
        if cname == "build_script_build" {
            return Compilation::Continue;
        }
        let mut ex = Ex { tcx, cname: cname.clone(), buf: String::with_capacity(1 << 26), nbodies: 0, ncalls: 0, nasserts: 0 };
        ex.run();
        let kind = if tcx.crate_types().iter().any(|t| matches!(t, rustc_session::config::CrateType::Executable)) { "bin" } else { "lib" };
        let path = format!("{}/{}-{}-{}.jsonl", out, cname, kind, std::process::id());
        let tmp = format!("{}.tmp", path);
        {
            let mut f = std::fs::File::create(&tmp).expect("create fact file");
            f.write_all(ex.buf.as_bytes()).expect("write fact file");
        }
        std::fs::rename(&tmp, &path).expect("rename fact file");
        Compilation::Continue
    }
}

struct Ex<'tcx> {
    tcx: TyCtxt<'tcx>,
    cname: String,
    buf: String,
    nbodies: usize,
    ncalls: usize,
    nasserts: usize,
}

fn esc(s: &str, out: &mut String) {
    out.push('"');
    for c in s.chars() {
        match c {
            '"' => out.push_str("\\\""),
            '\\' => out.push_str("\\\\"),
            '\n' => out.push_str("\\n"),
            '\r' => out.push_str("\\r"),
            '\t' => out.push_str("\\t"),
            c if (c as u32) < 0x20 => {
                let _ = write!(out, "\\u{:04x}", c as u32);
            }
            c => out.push(c),
        }
    }
    out.push('"');
}

impl<'tcx> Ex<'tcx> {
    fn fix(&self, s: String) -> String {
        // `crate::` (from with_crate_prefix) -> real crate name; erased regions dropped
        let s = s.replace("crate::", &format!("{}::", self.cname));
        s.replace("'{erased} ", "").replace("'{erased}, ", "").replace("<'{erased}>", "").replace("'{erased}", "'_")
    }
    fn path(&self, d: DefId) -> String {
        let s = with_no_visible_paths!(with_crate_prefix!(with_no_trimmed_paths!(self.tcx.def_path_str(d))));
        self.fix(s)
    }
    fn path_args(&self, d: DefId, a: GenericArgsRef<'tcx>) -> String {
        let s = with_no_visible_paths!(with_crate_prefix!(with_no_trimmed_paths!(self.tcx.def_path_str_with_args(d, a))));
        self.fix(s)
    }
    fn ty(&self, t: Ty<'tcx>) -> String {
        let s = with_no_visible_paths!(with_crate_prefix!(with_no_trimmed_paths!(format!("{}", t))));
        self.fix(s)
    }
    fn span(&self, sp: Span) -> String {
        let sp = sp.source_callsite();
        let sm = self.tcx.sess.source_map();
        let lo = sm.lookup_char_pos(sp.lo());
        let f = match &lo.file.name {
            rustc_span::FileName::Real(r) => match r.local_path() {
                Some(p) => p.display().to_string(),
                None => format!("{:?}", lo.file.name),
            },
            o => format!("{:?}", o),
        };
        format!("{}:{}:{}", f, lo.line, lo.col.0 + 1)
    }
    fn macros(&self, sp: Span) -> Vec<String> {
        let mut v = Vec::new();
        for e in sp.macro_backtrace() {
            match e.kind {
                rustc_span::ExpnKind::Macro(_, name) => v.push(name.to_string()),
                rustc_span::ExpnKind::Desugaring(d) => v.push(format!("desugar:{:?}", d)),
                rustc_span::ExpnKind::AstPass(p) => v.push(format!("astpass:{:?}", p)),
                rustc_span::ExpnKind::Root => {}
            }
        }
        v
    }
    fn span_json(&self, sp: Span, o: &mut String) {
        o.push_str("\"sp\":");
        esc(&self.span(sp), o);
        if sp.from_expansion() {
            o.push_str(",\"mac\":[");
            for (i, m) in self.macros(sp).iter().enumerate() {
                if i > 0 {
                    o.push(',');
                }
                esc(m, o);
            }
            o.push(']');
        }
    }

    fn run(&mut self) {
        let tcx = self.tcx;
        // ADTs, impls, traits, consts
        let mut items = String::new();
        for id in tcx.hir_crate_items(()).definitions() {
            let did = id.to_def_id();
            match tcx.def_kind(did) {
                DefKind::Struct | DefKind::Enum | DefKind::Union => self.adt(did, &mut items),
                DefKind::Impl { .. } => self.impl_(did, &mut items),
                DefKind::Trait => self.trait_(did, &mut items),
                _ => {}
            }
        }
        self.buf.push_str(&items);
        let owners: Vec<LocalDefId> = tcx.hir_body_owners().collect();
        for ld in owners {
            let did = ld.to_def_id();
            match tcx.def_kind(did) {
                DefKind::Fn | DefKind::AssocFn | DefKind::Closure => {}
                _ => continue,
            }
            if tcx.is_constructor(did) {
                continue;
            }
            let body = tcx.optimized_mir(did);
            let mut o = String::with_capacity(1 << 14);
            self.body(ld, body, &mut o);
            self.buf.push_str(&o);
            self.buf.push('\n');
            self.nbodies += 1;
        }
        let _ = writeln!(
            self.buf,
            "{{\"k\":\"summary\",\"crate\":\"{}\",\"bodies\":{},\"calls\":{},\"asserts\":{}}}",
            self.cname, self.nbodies, self.ncalls, self.nasserts
        );
    }

    fn adt(&self, did: DefId, o: &mut String) {
        let tcx = self.tcx;
        let adt = tcx.adt_def(did);
        o.push_str("{\"k\":\"adt\",\"path\":");
        esc(&self.path(did), o);
        let _ = write!(o, ",\"kind\":\"{}\"", if adt.is_enum() { "enum" } else if adt.is_union() { "union" } else { "struct" });
        o.push_str(",");
        self.span_json(tcx.def_span(did), o);
        o.push_str(",\"variants\":[");
        for (i, v) in adt.variants().iter().enumerate() {
            if i > 0 {
                o.push(',');
            }
            o.push_str("{\"name\":");
            esc(v.name.as_str(), o);
            if adt.is_enum() {
                let d = adt.discriminant_for_variant(tcx, rustc_abi::VariantIdx::from_usize(i));
                let _ = write!(o, ",\"discr\":\"{}\"", d.val);
            }
            o.push_str(",\"fields\":[");
            for (j, f) in v.fields.iter().enumerate() {
                if j > 0 {
                    o.push(',');
                }
                o.push_str("{\"name\":");
                esc(f.name.as_str(), o);
                o.push_str(",\"ty\":");
                let t = tcx.type_of(f.did).instantiate_identity().skip_norm_wip();
                esc(&self.ty(t), o);
                o.push('}');
            }
            o.push_str("]}");
        }
        o.push_str("]}\n");
    }

    fn impl_(&self, did: DefId, o: &mut String) {
        let tcx = self.tcx;
        o.push_str("{\"k\":\"impl\",\"path\":");
        esc(&self.path(did), o);
        o.push_str(",\"self\":");
        let st = tcx.type_of(did).instantiate_identity().skip_norm_wip();
        esc(&self.ty(st), o);
        if let Some(tr) = tcx.impl_opt_trait_ref(did) {
            let tr = tr.instantiate_identity().skip_norm_wip();
            o.push_str(",\"trait\":");
            esc(&self.path(tr.def_id), o);
            o.push_str(",\"trait_ref\":");
            let s = with_no_visible_paths!(with_crate_prefix!(with_no_trimmed_paths!(format!("{}", tr.print_only_trait_path()))));
            esc(&self.fix(s), o);
        }
        o.push_str(",\"items\":[");
        for (i, it) in tcx.associated_item_def_ids(did).iter().enumerate() {
            if i > 0 {
                o.push(',');
            }
            esc(&self.path(*it), o);
        }
        o.push_str("]}\n");
    }

    fn trait_(&self, did: DefId, o: &mut String) {
        let tcx = self.tcx;
        o.push_str("{\"k\":\"trait\",\"path\":");
        esc(&self.path(did), o);
        o.push_str(",\"items\":[");
        for (i, it) in tcx.associated_item_def_ids(did).iter().enumerate() {
            if i > 0 {
                o.push(',');
            }
            o.push_str("{\"path\":");
            esc(&self.path(*it), o);
            let _ = write!(o, ",\"kind\":\"{:?}\",\"default\":{}}}", tcx.def_kind(*it), tcx.defaultness(*it).has_value());
        }
        o.push_str("]}\n");
    }

    fn body(&mut self, ld: LocalDefId, body: &Body<'tcx>, o: &mut String) {
        let tcx = self.tcx;
        let did = ld.to_def_id();
        let kind = tcx.def_kind(did);
        o.push_str("{\"k\":\"fn\",\"path\":");
        esc(&self.path(did), o);
        o.push_str(",\"crate\":");
        esc(&self.cname, o);
        let _ = write!(o, ",\"kind\":\"{:?}\"", kind);
        if matches!(kind, DefKind::Fn | DefKind::AssocFn) {
            let vis = tcx.visibility(did);
            let v = if vis.is_public() { "pub".to_string() } else { format!("{:?}", vis) };
            o.push_str(",\"vis\":");
            esc(&v, o);
            let sig = tcx.fn_sig(did).instantiate_identity().skip_norm_wip();
            o.push_str(",\"abi\":");
            esc(&format!("{:?}", sig.abi()), o);
            let attrs = tcx.codegen_fn_attrs(did);
            let nm = attrs.flags.contains(rustc_middle::middle::codegen_fn_attrs::CodegenFnAttrFlags::NO_MANGLE);
            let _ = write!(o, ",\"no_mangle\":{}", nm);
            let _ = write!(o, ",\"unsafe\":{}", sig.safety().is_unsafe());
            // associated item container
            if let Some(ai) = tcx.opt_associated_item(did) {
                let c = ai.container_id(tcx);
                o.push_str(",\"container\":");
                esc(&self.path(c), o);
                if let Some(ti) = ai.trait_item_def_id() {
                    o.push_str(",\"trait_item\":");
                    esc(&self.path(ti), o);
                }
            }
        } else {
            let p = tcx.typeck_root_def_id(did);
            o.push_str(",\"root\":");
            esc(&self.path(p), o);
            o.push_str(",\"parent\":");
            esc(&self.path(tcx.parent(did)), o);
        }
        // is the item reachable from the crate's public API (effective visibility)
        let ev = tcx.effective_visibilities(());
        let _ = write!(o, ",\"exported\":{}", ev.is_reachable(ld));
        o.push(',');
        self.span_json(body.span, o);
        let sm = tcx.sess.source_map();
        let hi = sm.lookup_char_pos(body.span.source_callsite().hi());
        let _ = write!(o, ",\"hi\":{}", hi.line);
        let _ = write!(o, ",\"argc\":{}", body.arg_count);
        // locals
        let mut names: Vec<Option<String>> = vec![None; body.local_decls.len()];
        for v in &body.var_debug_info {
            if let VarDebugInfoContents::Place(p) = &v.value {
                if p.projection.is_empty() {
                    names[p.local.as_usize()] = Some(v.name.to_string());
                }
            }
        }
        o.push_str(",\"locals\":[");
        for (i, l) in body.local_decls.iter().enumerate() {
            if i > 0 {
                o.push(',');
            }
            o.push_str("{\"ty\":");
            esc(&self.ty(l.ty), o);
            if let Some(n) = &names[i] {
                o.push_str(",\"n\":");
                esc(n, o);
            }
            o.push('}');
        }
        o.push_str("],\"blocks\":[");
        for (bi, bb) in body.basic_blocks.iter_enumerated() {
            if bi.as_usize() > 0 {
                o.push(',');
            }
            o.push_str("{");
            if bb.is_cleanup {
                o.push_str("\"cleanup\":1,");
            }
            o.push_str("\"st\":[");
            let mut first = true;
            for st in &bb.statements {
                let mut s = String::new();
                match &st.kind {
                    StatementKind::Assign(b) => {
                        let (pl, rv) = &**b;
                        s.push_str("{\"d\":");
                        self.place(body, pl, &mut s);
                        s.push_str(",\"rv\":");
                        self.rvalue(ld, body, rv, &mut s);
                        s.push(',');
                        self.span_json(st.source_info.span, &mut s);
                        s.push('}');
                    }
                    StatementKind::SetDiscriminant { place, variant_index } => {
                        s.push_str("{\"d\":");
                        self.place(body, place, &mut s);
                        let _ = write!(s, ",\"rv\":{{\"k\":\"SetDiscr\",\"v\":{}}},", variant_index.as_usize());
                        self.span_json(st.source_info.span, &mut s);
                        s.push('}');
                    }
                    _ => continue,
                }
                if !first {
                    o.push(',');
                }
                first = false;
                o.push_str(&s);
            }
            o.push_str("],\"t\":");
            self.term(ld, body, bb.terminator(), o);
            o.push('}');
        }
        o.push_str("]}");
    }

    fn place(&self, body: &Body<'tcx>, p: &Place<'tcx>, o: &mut String) {
        let tcx = self.tcx;
        let _ = write!(o, "{{\"l\":{},\"p\":[", p.local.as_usize());
        let mut pty = mir::PlaceTy::from_ty(body.local_decls[p.local].ty);
        for (i, e) in p.projection.iter().enumerate() {
            if i > 0 {
                o.push(',');
            }
            match e {
                ProjectionElem::Deref => o.push_str("\"*\""),
                ProjectionElem::Field(f, _) => {
                    let name = match pty.ty.kind() {
                        ty::Adt(adt, _) => {
                            let vi = pty.variant_index.unwrap_or(rustc_abi::FIRST_VARIANT);
                            adt.variant(vi).fields[f].name.to_string()
                        }
                        _ => format!("{}", f.as_usize()),
                    };
                    esc(&format!(".{}", name), o);
                }
                ProjectionElem::Index(l) => {
                    let _ = write!(o, "\"[_{}]\"", l.as_usize());
                }
                ProjectionElem::ConstantIndex { offset, from_end, .. } => {
                    let _ = write!(o, "\"[c{}{}]\"", if from_end { "-" } else { "" }, offset);
                }
                ProjectionElem::Subslice { from, to, from_end } => {
                    let _ = write!(o, "\"[{}..{}{}]\"", from, if from_end { "-" } else { "" }, to);
                }
                ProjectionElem::Downcast(name, vi) => {
                    let n = match name {
                        Some(n) => n.to_string(),
                        None => format!("{}", vi.as_usize()),
                    };
                    esc(&format!("@{}", n), o);
                }
                ProjectionElem::OpaqueCast(_) => o.push_str("\"opaque\""),
                ProjectionElem::UnwrapUnsafeBinder(_) => o.push_str("\"unbind\""),
            }
            pty = pty.projection_ty(tcx, e);
        }
        o.push_str("]}");
    }

    fn konst(&self, owner: LocalDefId, c: &mir::ConstOperand<'tcx>, o: &mut String) {
        let tcx = self.tcx;
        let ty = c.const_.ty();
        o.push_str("{\"k\":{\"ty\":");
        esc(&self.ty(ty), o);
        if let ty::FnDef(d, a) = ty.kind() {
            o.push_str(",\"fn\":");
            esc(&self.path(*d), o);
            o.push_str(",\"fnargs\":");
            esc(&self.path_args(*d, a), o);
        }
        match c.const_ {
            Const::Unevaluated(u, _) => {
                o.push_str(",\"def\":");
                esc(&self.path(u.def), o);
                if let Some(pidx) = u.promoted {
                    o.push_str(",\"promoted\":1");
                    // the promoted body's ADT aggregates (e.g. `&Capability::SyncReset`): (adt, variant) pairs
                    if let Some(ld) = u.def.as_local() {
                        let proms = tcx.promoted_mir(ld.to_def_id());
                        if let Some(pb) = proms.get(pidx) {
                            let mut first = true;
                            for bb in pb.basic_blocks.iter() {
                                for st in &bb.statements {
                                    if let StatementKind::Assign(b) = &st.kind {
                                        if let Rvalue::Aggregate(ak, _) = &b.1 {
                                            if let AggregateKind::Adt(d, vi, _, _, _) = &**ak {
                                                if first {
                                                    o.push_str(",\"paggs\":[");
                                                    first = false;
                                                } else {
                                                    o.push(',');
                                                }
                                                o.push('[');
                                                esc(&self.path(*d), o);
                                                o.push(',');
                                                esc(tcx.adt_def(*d).variant(*vi).name.as_str(), o);
                                                o.push(']');
                                            }
                                        }
                                    }
                                }
                            }
                            if !first {
                                o.push(']');
                            }
                        }
                    }
                }
            }
            _ => {}
        }
        // try to evaluate to a scalar
        let env = TypingEnv::post_analysis(tcx, owner.to_def_id());
        if ty.is_integral() || ty.is_bool() || ty.is_char() {
            if let Some(si) = c.const_.try_eval_scalar_int(tcx, env) {
                let size = si.size();
                let v: u128 = si.to_bits(size);
                if ty.is_signed() {
                    let bits = size.bits();
                    let sv: i128 = if bits == 128 { v as i128 } else { ((v as i128) << (128 - bits)) >> (128 - bits) };
                    let _ = write!(o, ",\"v\":\"{}\"", sv);
                } else {
                    let _ = write!(o, ",\"v\":\"{}\"", v);
                }
            }
        } else if matches!(ty.kind(), ty::Adt(..)) {
            // newtype-like constants (e.g. `ColumnSpec(u32)`): scalar ABI, print the bits
            if let Some(sc) = c.const_.try_eval_scalar(tcx, env) {
                if let Ok(si) = sc.try_to_scalar_int() {
                    let v: u128 = si.to_bits(si.size());
                    let _ = write!(o, ",\"v\":\"{}\"", v);
                }
            }
        } else if let Const::Val(ConstValue::Slice { .. }, t) = c.const_ {
            // string literal
            if let ty::Ref(_, inner, _) = t.kind() {
                if inner.is_str() {
                    let s = format!("{}", c.const_);
                    o.push_str(",\"s\":");
                    esc(&s, o);
                }
            }
        }
        o.push_str("}}");
    }

    fn operand(&self, owner: LocalDefId, body: &Body<'tcx>, op: &Operand<'tcx>, o: &mut String) {
        match op {
            Operand::Copy(p) => {
                o.push_str("{\"c\":");
                self.place(body, p, o);
                o.push('}');
            }
            Operand::Move(p) => {
                o.push_str("{\"m\":");
                self.place(body, p, o);
                o.push('}');
            }
            Operand::Constant(c) => self.konst(owner, c, o),
            #[allow(unreachable_patterns)]
            _ => o.push_str("{\"k\":{\"ty\":\"?\"}}"),
        }
    }

    fn rvalue(&self, owner: LocalDefId, body: &Body<'tcx>, rv: &Rvalue<'tcx>, o: &mut String) {
        let tcx = self.tcx;
        match rv {
            Rvalue::Use(op, ..) => {
                o.push_str("{\"k\":\"Use\",\"o\":[");
                self.operand(owner, body, op, o);
                o.push_str("]}");
            }
            Rvalue::Repeat(op, _) => {
                o.push_str("{\"k\":\"Repeat\",\"o\":[");
                self.operand(owner, body, op, o);
                o.push_str("]}");
            }
            Rvalue::Ref(_, bk, p) => {
                let m = matches!(bk, BorrowKind::Mut { .. });
                let _ = write!(o, "{{\"k\":\"Ref\",\"mut\":{},\"p\":", m);
                self.place(body, p, o);
                o.push('}');
            }
            Rvalue::RawPtr(k, p) => {
                let _ = write!(o, "{{\"k\":\"RawPtr\",\"mut\":{},\"p\":", matches!(k, mir::RawPtrKind::Mut));
                self.place(body, p, o);
                o.push('}');
            }
            Rvalue::Cast(ck, op, t) => {
                let ckn = match ck {
                    CastKind::Transmute => "Transmute".to_string(),
                    other => format!("{:?}", other),
                };
                o.push_str("{\"k\":\"Cast\",\"ck\":");
                esc(&ckn, o);
                o.push_str(",\"ty\":");
                esc(&self.ty(*t), o);
                o.push_str(",\"from\":");
                esc(&self.ty(op.ty(&body.local_decls, tcx)), o);
                o.push_str(",\"o\":[");
                self.operand(owner, body, op, o);
                o.push_str("]}");
            }
            Rvalue::BinaryOp(bop, b) => {
                let (a, c) = &**b;
                let n = match bop {
                    BinOp::AddWithOverflow => "AddWithOverflow".to_string(),
                    other => format!("{:?}", other),
                };
                o.push_str("{\"k\":\"Bin\",\"op\":");
                esc(&n, o);
                o.push_str(",\"o\":[");
                self.operand(owner, body, a, o);
                o.push(',');
                self.operand(owner, body, c, o);
                o.push_str("]}");
            }
            Rvalue::UnaryOp(uop, a) => {
                o.push_str("{\"k\":\"Un\",\"op\":");
                esc(&format!("{:?}", uop), o);
                o.push_str(",\"o\":[");
                self.operand(owner, body, a, o);
                o.push_str("]}");
            }
            Rvalue::Discriminant(p) => {
                o.push_str("{\"k\":\"Discr\",\"p\":");
                self.place(body, p, o);
                // enum type for mapping values -> variant names
                let pt = p.ty(&body.local_decls, tcx).ty;
                o.push_str(",\"ty\":");
                esc(&self.ty(pt), o);
                if let ty::Adt(adt, _) = pt.kind() {
                    if adt.is_enum() {
                        o.push_str(",\"vars\":{");
                        for (i, (vi, d)) in adt.discriminants(tcx).enumerate() {
                            if i > 0 {
                                o.push(',');
                            }
                            let _ = write!(o, "\"{}\":", d.val);
                            esc(adt.variant(vi).name.as_str(), o);
                        }
                        o.push('}');
                    }
                }
                o.push('}');
            }
            Rvalue::Aggregate(ak, ops) => {
                o.push_str("{\"k\":\"Agg\"");
                match &**ak {
                    AggregateKind::Array(_) => o.push_str(",\"ak\":\"array\""),
                    AggregateKind::Tuple => o.push_str(",\"ak\":\"tuple\""),
                    AggregateKind::Adt(d, vi, args, _, fidx) => {
                        let adt = tcx.adt_def(*d);
                        o.push_str(",\"ak\":\"adt\",\"adt\":");
                        esc(&self.path(*d), o);
                        o.push_str(",\"adt_args\":");
                        esc(&self.path_args(*d, args), o);
                        o.push_str(",\"variant\":");
                        esc(adt.variant(*vi).name.as_str(), o);
                        o.push_str(",\"fields\":[");
                        if let Some(fi) = fidx {
                            esc(adt.variant(*vi).fields[*fi].name.as_str(), o);
                        } else {
                            for (i, f) in adt.variant(*vi).fields.iter().enumerate() {
                                if i > 0 {
                                    o.push(',');
                                }
                                esc(f.name.as_str(), o);
                            }
                        }
                        o.push(']');
                    }
                    AggregateKind::Closure(d, _) => {
                        o.push_str(",\"ak\":\"closure\",\"closure\":");
                        esc(&self.path(*d), o);
                    }
                    AggregateKind::Coroutine(d, _) | AggregateKind::CoroutineClosure(d, _) => {
                        o.push_str(",\"ak\":\"coroutine\",\"closure\":");
                        esc(&self.path(*d), o);
                    }
                    AggregateKind::RawPtr(..) => o.push_str(",\"ak\":\"rawptr\""),
                }
                o.push_str(",\"o\":[");
                for (i, op) in ops.iter().enumerate() {
                    if i > 0 {
                        o.push(',');
                    }
                    self.operand(owner, body, op, o);
                }
                o.push_str("]}");
            }
            Rvalue::CopyForDeref(p) => {
                o.push_str("{\"k\":\"Use\",\"o\":[{\"c\":");
                self.place(body, p, o);
                o.push_str("}]}");
            }
            Rvalue::ThreadLocalRef(d) => {
                o.push_str("{\"k\":\"Tls\",\"def\":");
                esc(&self.path(*d), o);
                o.push('}');
            }
            Rvalue::WrapUnsafeBinder(op, _) => {
                o.push_str("{\"k\":\"Use\",\"o\":[");
                self.operand(owner, body, op, o);
                o.push_str("]}");
            }
            #[allow(unreachable_patterns)]
            other => {
                o.push_str("{\"k\":\"Other\",\"dbg\":");
                esc(&format!("{:?}", other), o);
                o.push('}');
            }
        }
    }

    fn bb(b: BasicBlock) -> usize {
        b.as_usize()
    }

    fn unwind(u: &UnwindAction, o: &mut String) {
        if let UnwindAction::Cleanup(b) = u {
            let _ = write!(o, ",\"unwind\":{}", b.as_usize());
        }
    }

    fn term(&mut self, owner: LocalDefId, body: &Body<'tcx>, t: &mir::Terminator<'tcx>, o: &mut String) {
        let tcx = self.tcx;
        match &t.kind {
            TerminatorKind::Goto { target } => {
                let _ = write!(o, "{{\"k\":\"goto\",\"target\":{}}}", Self::bb(*target));
            }
            TerminatorKind::SwitchInt { discr, targets } => {
                o.push_str("{\"k\":\"switch\",\"op\":");
                self.operand(owner, body, discr, o);
                o.push_str(",\"ty\":");
                esc(&self.ty(discr.ty(&body.local_decls, tcx)), o);
                o.push_str(",\"targets\":[");
                for (i, (v, b)) in targets.iter().enumerate() {
                    if i > 0 {
                        o.push(',');
                    }
                    let _ = write!(o, "[\"{}\",{}]", v, Self::bb(b));
                }
                let _ = write!(o, "],\"otherwise\":{},", Self::bb(targets.otherwise()));
                self.span_json(t.source_info.span, o);
                o.push('}');
            }
            TerminatorKind::Return => o.push_str("{\"k\":\"return\"}"),
            TerminatorKind::Unreachable => o.push_str("{\"k\":\"unreachable\"}"),
            TerminatorKind::UnwindResume => o.push_str("{\"k\":\"resume\"}"),
            TerminatorKind::UnwindTerminate(_) => o.push_str("{\"k\":\"terminate\"}"),
            TerminatorKind::Drop { place, target, unwind, .. } => {
                o.push_str("{\"k\":\"drop\",\"p\":");
                self.place(body, place, o);
                let _ = write!(o, ",\"target\":{}", Self::bb(*target));
                Self::unwind(unwind, o);
                o.push('}');
            }
            TerminatorKind::Assert { cond, expected, msg, target, unwind } => {
                self.nasserts += 1;
                let kind = match &**msg {
                    AssertKind::BoundsCheck { .. } => "BoundsCheck".to_string(),
                    AssertKind::Overflow(op, ..) => format!("Overflow:{:?}", op),
                    AssertKind::OverflowNeg(_) => "OverflowNeg".to_string(),
                    AssertKind::DivisionByZero(_) => "DivisionByZero".to_string(),
                    AssertKind::RemainderByZero(_) => "RemainderByZero".to_string(),
                    AssertKind::MisalignedPointerDereference { .. } => "Misaligned".to_string(),
                    AssertKind::NullPointerDereference => "NullDeref".to_string(),
                    AssertKind::InvalidEnumConstruction(_) => "InvalidEnum".to_string(),
                    AssertKind::ResumedAfterReturn(_) | AssertKind::ResumedAfterPanic(_) | AssertKind::ResumedAfterDrop(_) => "Resumed".to_string(),
                };
                o.push_str("{\"k\":\"assert\",\"cond\":");
                self.operand(owner, body, cond, o);
                let _ = write!(o, ",\"expected\":{},\"msg\":\"{}\"", expected, kind);
                // operands of the assert message (index/len, or the arithmetic operands)
                o.push_str(",\"mo\":[");
                match &**msg {
                    AssertKind::BoundsCheck { len, index } => {
                        self.operand(owner, body, len, o);
                        o.push(',');
                        self.operand(owner, body, index, o);
                    }
                    AssertKind::Overflow(_, a, b) => {
                        self.operand(owner, body, a, o);
                        o.push(',');
                        self.operand(owner, body, b, o);
                    }
                    AssertKind::OverflowNeg(a) | AssertKind::DivisionByZero(a) | AssertKind::RemainderByZero(a) => {
                        self.operand(owner, body, a, o);
                    }
                    _ => {}
                }
                o.push(']');
                let _ = write!(o, ",\"target\":{}", Self::bb(*target));
                Self::unwind(unwind, o);
                o.push(',');
                self.span_json(t.source_info.span, o);
                o.push('}');
            }
            _ => self.term2(owner, body, t, o),
        }
    }

    fn term2(&mut self, owner: LocalDefId, body: &Body<'tcx>, t: &mir::Terminator<'tcx>, o: &mut String) {
        let tcx = self.tcx;
        match &t.kind {
            TerminatorKind::Call { func, args, destination, target, unwind, fn_span, .. } => {
                self.ncalls += 1;
                o.push_str("{\"k\":\"call\"");
                let fty = func.ty(&body.local_decls, tcx);
                if let ty::FnDef(d, a) = fty.kind() {
                    o.push_str(",\"fn\":");
                    esc(&self.path(*d), o);
                    o.push_str(",\"fnargs\":");
                    esc(&self.path_args(*d, a), o);
                    o.push_str(",\"ga\":[");
                    for (i, ga) in a.iter().enumerate() {
                        if i > 0 {
                            o.push(',');
                        }
                        let s = with_no_visible_paths!(with_crate_prefix!(with_no_trimmed_paths!(format!("{}", ga))));
                        esc(&self.fix(s), o);
                    }
                    o.push(']');
                    let env = TypingEnv::post_analysis(tcx, owner.to_def_id());
                    if let Ok(Some(inst)) = Instance::try_resolve(tcx, env, *d, a) {
                        let rd = inst.def_id();
                        o.push_str(",\"res\":");
                        esc(&self.path(rd), o);
                        o.push_str(",\"resargs\":");
                        esc(&self.path_args(rd, inst.args), o);
                        let _ = write!(o, ",\"reskind\":\"{}\"", match inst.def {
                            ty::InstanceKind::Item(_) => "item",
                            ty::InstanceKind::Virtual(..) => "virtual",
                            ty::InstanceKind::Intrinsic(_) => "intrinsic",
                            ty::InstanceKind::ClosureOnceShim { .. } => "closure_once",
                            ty::InstanceKind::FnPtrShim(..) => "fnptr_shim",
                            ty::InstanceKind::DropGlue(..) => "drop_glue",
                            ty::InstanceKind::CloneShim(..) => "clone_shim",
                            _ => "other",
                        });
                        if rd.is_local() {
                            o.push_str(",\"reslocal\":1");
                        }
                    }
                    if let Some(ai) = tcx.opt_associated_item(*d) {
                        let c = ai.container_id(tcx);
                        if matches!(tcx.def_kind(c), DefKind::Trait) {
                            o.push_str(",\"trait\":");
                            esc(&self.path(c), o);
                        }
                    }
                } else {
                    o.push_str(",\"fnop\":");
                    self.operand(owner, body, func, o);
                    o.push_str(",\"fnty\":");
                    esc(&self.ty(fty), o);
                }
                o.push_str(",\"args\":[");
                for (i, a) in args.iter().enumerate() {
                    if i > 0 {
                        o.push(',');
                    }
                    self.operand(owner, body, &a.node, o);
                }
                o.push_str("],\"argtys\":[");
                for (i, a) in args.iter().enumerate() {
                    if i > 0 {
                        o.push(',');
                    }
                    esc(&self.ty(a.node.ty(&body.local_decls, tcx)), o);
                }
                o.push_str("],\"dst\":");
                self.place(body, destination, o);
                if let Some(tg) = target {
                    let _ = write!(o, ",\"target\":{}", Self::bb(*tg));
                }
                Self::unwind(unwind, o);
                o.push(',');
                self.span_json(*fn_span, o);
                o.push('}');
            }
            TerminatorKind::TailCall { .. } => o.push_str("{\"k\":\"tailcall\"}"),
            TerminatorKind::InlineAsm { .. } => o.push_str("{\"k\":\"asm\"}"),
            other => {
                o.push_str("{\"k\":\"other\",\"dbg\":");
                esc(&format!("{:?}", other), o);
                o.push('}');
            }
        }
    }
}

fn main() {
    let mut args: Vec<String> = std::env::args().collect();
    // RUSTC_WORKSPACE_WRAPPER: argv[1] is the path of the real rustc
    if args.len() > 1 && (args[1].ends_with("rustc") || args[1].contains("/rustc")) {
        args.remove(1);
    }
    rustc_driver::install_ice_hook("https://example.invalid/amverif", |_| ());
    let code = rustc_driver::catch_with_exit_code(|| {
        rustc_driver::run_compiler(&args, &mut Cb);
    });
    let _ = code;
    std::process::exit(if code == std::process::ExitCode::SUCCESS { 0 } else { 1 });
}
