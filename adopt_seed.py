#!/usr/bin/env python3
"""adopt_seed.py <PID> <N> [extra check ids...]: copy a verified seeded change from /tmp/seed_<PID>/out/<N> into
/verif/seeded/<PID>-<N>/ and record which checks detect it (run against a scratch copy with the patch applied)."""
import json, os, shutil, subprocess, sys, re
sys.path.insert(0, os.path.dirname(os.path.abspath(__file__)))
from amverif import selftest
pid, n = sys.argv[1], sys.argv[2]
checks = [pid] + sys.argv[3:]
src = "/tmp/seed_%s/out/%s" % (pid, n)
dst = "/verif/seeded/%s-%s" % (pid, n)
os.makedirs(dst, exist_ok=True)
for f in ("patch.diff", "demo.rs"):
    shutil.copy(os.path.join(src, f), os.path.join(dst, f))
meta = json.load(open(os.path.join(src, "meta.json")))
vlog = open("/tmp/seed_%s/verify%s.log" % (pid, n)).read()
m = re.search(r"RESULT (.*)", vlog)
meta["confirmed_by_me"] = {
    "how": "verify_seed.sh in the scratch worktree: patch applies; demo fails with it; `cargo test --offline -p <touched crates> --no-fail-fast` passes apart from the demo; demo passes without it",
    "result": m.group(1) if m else "unverified",
}
detected = []
for c in checks:
    d = selftest.scratch_copy()
    try:
        r = subprocess.run(["patch", "-p1", "-s", "-i", os.path.join(dst, "patch.diff")], cwd=d, stdout=subprocess.PIPE, stderr=subprocess.STDOUT, text=True)
        assert r.returncode == 0, r.stdout
        env = dict(os.environ, AMVERIF_REPO=d, AMVERIF_EVID=os.path.join(d, "evidence"))
        r = subprocess.run(["/verif/check", c], env=env, stdout=subprocess.PIPE, stderr=subprocess.STDOUT, text=True)
        keys = re.findall(r"violated: (\S.*?) at ", r.stdout)
        print(c, "exit", r.returncode, keys[:3])
        keys = [k for k in keys if not k.startswith("anchor|internal error")]
        if r.returncode == 1 and keys:
            detected.append({"check": c, "expect": keys[0]})
    finally:
        shutil.rmtree(d, ignore_errors=True)
meta["detected_by"] = detected
meta["checks_run"] = ["./check %s (against a scratch copy of /repo with patch.diff applied)" % c for c in checks]
json.dump(meta, open(os.path.join(dst, "meta.json"), "w"), indent=1)
print("adopted", dst, "detected_by", detected)
