#!/bin/sh
# Offline setup: build the fact extractor and warm the fact cache for the current tree.
set -e
cd "$(dirname "$0")"
export CARGO_NET_OFFLINE=true
(cd driver && cargo +nightly build --offline)
python3 -c "from amverif import facts; facts.extract('dev')"
