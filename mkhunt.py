#!/usr/bin/env python3
"""mkhunt.py <PID>: write /tmp/hunt_<PID>.txt — a prompt asking an agent to look for inputs on which the UNMODIFIED tree violates the
property (baseline defects). The agent sees only the property text and its own worktree /tmp/hunt_<PID>."""
import json, sys
pid = sys.argv[1]
prop = [json.loads(l) for l in open("/verif/properties.jsonl") if json.loads(l)["id"] == pid][0]
W = "/tmp/hunt_%s" % pid
a = prop["anchors"]
txt = f"""You are testing the open-source project automerge (Rust CRDT library) for REAL, PRE-EXISTING bugs. Work ONLY inside the scratch git worktree {W} (the Rust workspace is {W}/rust). Do NOT read, write or list anything under /verif or /repo, and do not look at other /tmp/seed_* or /tmp/hunt_* directories. Do NOT modify any library source file.

PROPERTY {pid}: {prop['title']}
Statement: {prop['statement']}
Quantifier: {prop['quantifier']['text']}
Anchors (files): {', '.join(a['files'])}
Mechanisms: {'; '.join('%s @ %s' % (m['name'], m['where']) for m in a['mechanism'])}

TASK: find concrete scenarios, using only the public API of the crate, in which the UNMODIFIED code violates this property: a wrong result, a panic (also a debug_assert in a debug build), an error where the operation should succeed, or a document whose own save() output cannot be loaded. Read the code around the mechanisms above and look for edge cases the existing tests do not exercise: conflicting concurrent values on one key or list element (two or three actors with fixed ActorId bytes so the order is deterministic), counters with increments inside conflicts, overwritten or deleted elements, multi-unit characters and block markers in each TextEncoding, isolation at older heads (AutoCommit::isolate), historical heads (the *_at methods), empty objects, the first or last position of a sequence. Write small integration tests and run them; iterate.

For each DISTINCT failing scenario you confirm (aim for up to 4, quality over quantity):
 1. Keep a minimal integration test in {W}/rust/automerge/tests/hunt_{pid.lower()}_N.rs (N = 1, 2, ...) that FAILS on the unmodified code and states in its assertion message what the property requires. Use only existing dev-dependencies; always pass --offline to cargo and set CARGO_TARGET_DIR={W}/target.
 2. Copy it to {W}/out/N/test.rs and write {W}/out/N/meta.json with keys: property ("{pid}"), summary (one sentence: what goes wrong), needs (the exact scenario), where (the function / lines in the library you believe are responsible and why), test_cmd (the exact cargo command), observed (the failure message).
Do not report scenarios that need malformed input bytes, and do not report anything you did not run. If you find nothing after a serious attempt, say so. Finish with a short summary of what you found."""
open("/tmp/hunt_%s.txt" % pid, "w").write(txt)
print("/tmp/hunt_%s.txt" % pid)
